//go:build verif

package barrier

// C01 (barrier level): every value written through the encrypted storage layer
// reaches the physical backend only as authenticated ciphertext bound to its
// storage key (O1, record shape, opened with crypto/aes + crypto/cipher directly),
// and a record whose stored bytes were altered / truncated / extended / re-headed /
// transplanted never reads back as anything but an error (O2, tamper oracle).
//
// The on-disk format the harness knows (from the property text, not from the code):
//   term(4, big endian) | version(1) | nonce(12) | ciphertext | tag(16)
//   version 1: no additional data; version 2: additional data = storage key.
// The keyring record (core/keyring) carries term 1 and is sealed with the root key;
// the root-key record (core/root-key) is sealed with the active term key.

import (
	"bytes"
	"context"
	"crypto/aes"
	"crypto/cipher"
	"encoding/base64"
	"encoding/binary"
	"encoding/hex"
	"encoding/json"
	"errors"
	"fmt"
	"sort"
	"strings"
	"testing"

	kit "github.com/openbao/openbao/sdk/v2/helper/verifkit"
	"github.com/openbao/openbao/sdk/v2/logical"
	"github.com/openbao/openbao/sdk/v2/physical"
	"github.com/openbao/openbao/v2/internal/helper/namespace"
)

const (
	c01Hdr      = 5
	c01Nonce    = 12
	c01Tag      = 16
	c01Overhead = c01Hdr + c01Nonce + c01Tag
)

var errC01UnknownVersion = errors.New("c01: record version unknown to the harness format table")

// c01OpenAAD opens rec with plain crypto/aes + cipher.NewGCM and explicit additional data.
func c01OpenAAD(key, rec, aad []byte) ([]byte, error) {
	if len(rec) < c01Overhead {
		return nil, fmt.Errorf("c01: record of %d bytes is shorter than header+nonce+tag", len(rec))
	}
	blk, err := aes.NewCipher(key)
	if err != nil {
		return nil, err
	}
	g, err := cipher.NewGCM(blk)
	if err != nil {
		return nil, err
	}
	out, err := g.Open(nil, rec[c01Hdr:c01Hdr+c01Nonce], rec[c01Hdr+c01Nonce:], aad)
	if err != nil {
		return nil, err
	}
	if out == nil {
		out = []byte{}
	}
	return out, nil
}

// c01Open opens rec as stored under storageKey according to its version byte.
func c01Open(key, rec []byte, storageKey string) ([]byte, error) {
	if len(rec) < c01Overhead {
		return nil, fmt.Errorf("c01: record of %d bytes is shorter than header+nonce+tag", len(rec))
	}
	switch rec[4] {
	case 1:
		return c01OpenAAD(key, rec, nil)
	case 2:
		return c01OpenAAD(key, rec, []byte(storageKey))
	}
	return nil, errC01UnknownVersion
}

// c01Seal builds a well-formed record under an arbitrary key (used to forge records).
func c01Seal(key []byte, term uint32, ver byte, nonce, plain []byte, storageKey string) []byte {
	blk, _ := aes.NewCipher(key)
	g, _ := cipher.NewGCM(blk)
	out := make([]byte, c01Hdr, c01Overhead+len(plain))
	binary.BigEndian.PutUint32(out, term)
	out[4] = ver
	out = append(out, nonce...)
	var aad []byte
	if ver == 2 {
		aad = []byte(storageKey)
	}
	return g.Seal(out, nonce, plain, aad)
}

// c01Mine partitions case numbers over shards with a multiplicative hash (plain modulo would correlate with
// the version / configuration pattern of the generators).
func c01Mine(n int) bool {
	shard, shards := kit.Shard()
	return int((uint32(n)*2654435761)>>16)%shards == shard
}

// ---------------------------------------------------------------- environment

type c01Env struct {
	id      string
	cfg     int
	tx      bool
	ns      *namespace.Namespace
	meta    string
	phys    physical.Backend
	inner   physical.Backend
	probe   *kit.Probe
	b       SecurityBarrier
	aes     *AESGCMBarrier
	root    []byte
	sealKey []byte
	defVer  byte
	expTerm uint32
	nonces  map[string]string
	model   map[string][]byte
}

var c01Ctx = context.Background()

// c01Configs: store kind x root/namespace barrier x with/without a seal key record.
var c01Configs = []struct {
	tx   bool
	ns   bool
	seal bool
}{{true, false, false}, {false, false, true}, {true, true, true}, {false, true, false}}

func c01NewEnv(t *testing.T, cfg int, rng *kit.Rand) *c01Env {
	return c01NewEnvFormat(t, cfg, rng, 0)
}

// c01NewEnvFormat: initVer != 0 initialises the store the way a release whose current record format was
// initVer did (in-package seam currentAESGCMVersionByte, set before Initialize and left in place).
func c01NewEnvFormat(t *testing.T, cfg int, rng *kit.Rand, initVer byte) *c01Env {
	c := c01Configs[cfg%len(c01Configs)]
	e := &c01Env{cfg: cfg, tx: c.tx, nonces: map[string]string{}, model: map[string][]byte{}}
	e.id = fmt.Sprintf("cfg%d(tx=%v,ns=%v,sealkey=%v)", cfg, c.tx, c.ns, c.seal)
	e.phys, e.probe = kit.NewInmemProbe(c.tx)
	e.inner = e.probe.Inner()
	if c.ns {
		u := hex.EncodeToString(rng.Bytes(16))
		uuid := u[:8] + "-" + u[8:12] + "-" + u[12:16] + "-" + u[16:20] + "-" + u[20:]
		e.ns = &namespace.Namespace{ID: "c01ns", UUID: uuid, Path: "c01ns/"}
		e.meta = NamespacePrefix + uuid + "/"
	}
	e.b = NewAESGCMBarrier(e.phys, e.ns)
	switch x := e.b.(type) {
	case *TransactionalAESGCMBarrier:
		e.aes = x.AESGCMBarrier
		if !c.tx {
			t.Fatalf("verif: transactional barrier over a non-transactional store")
		}
	case *AESGCMBarrier:
		e.aes = x
		if c.tx {
			t.Fatalf("verif: transactional store did not give a transactional barrier")
		}
	default:
		t.Fatalf("verif: unknown barrier type %T", e.b)
	}
	e.defVer = e.aes.currentAESGCMVersionByte
	if initVer != 0 {
		e.aes.currentAESGCMVersionByte = initVer
	}
	root, err := e.b.GenerateKey()
	if err != nil {
		t.Fatal(err)
	}
	e.root = root
	if c.seal {
		e.sealKey = rng.Bytes(32)
	}
	if err := e.b.Initialize(c01Ctx, root, e.sealKey); err != nil {
		t.Fatalf("verif: initialize: %v", err)
	}
	if err := e.b.Unseal(c01Ctx, root); err != nil {
		t.Fatalf("verif: unseal: %v", err)
	}
	e.expTerm = 1
	if e.sealKey != nil {
		e.model[e.meta+ShamirKekPath] = e.sealKey
	}
	return e
}

func (e *c01Env) raw(key string) []byte {
	pe, err := e.inner.Get(c01Ctx, key)
	if err != nil || pe == nil {
		return nil
	}
	return append([]byte(nil), pe.Value...)
}

func (e *c01Env) plant(key string, val []byte) {
	if err := e.inner.Put(c01Ctx, &physical.Entry{Key: key, Value: append([]byte(nil), val...)}); err != nil {
		panic(err)
	}
}

func (e *c01Env) unplant(key string) { _ = e.inner.Delete(c01Ctx, key) }

// c01Keyring is the keyring as an auditor holding the root key recovers it from the store.
type c01Keyring struct {
	Root   []byte
	Keys   map[uint32][]byte
	Active uint32
	Ver    byte
}

func (e *c01Env) refKeyring() (*c01Keyring, error) {
	rec := e.raw(e.meta + KeyringPath)
	if rec == nil {
		return nil, errors.New("no keyring record in the physical store")
	}
	if len(rec) < c01Overhead {
		return nil, fmt.Errorf("keyring record too short (%d)", len(rec))
	}
	if term := binary.BigEndian.Uint32(rec); term != 1 {
		return nil, fmt.Errorf("keyring record carries term %d, want 1", term)
	}
	plain, err := c01Open(e.root, rec, e.meta+KeyringPath)
	if err != nil {
		return nil, fmt.Errorf("keyring record does not open with the root key: %w", err)
	}
	var enc struct {
		MasterKey []byte
		Keys      []struct {
			Term    uint32
			Version int
			Value   []byte
		}
	}
	if err := json.Unmarshal(plain, &enc); err != nil {
		return nil, fmt.Errorf("keyring payload: %w", err)
	}
	kr := &c01Keyring{Root: enc.MasterKey, Keys: map[uint32][]byte{}, Ver: rec[4]}
	for _, k := range enc.Keys {
		kr.Keys[k.Term] = k.Value
		if k.Term > kr.Active {
			kr.Active = k.Term
		}
	}
	return kr, nil
}

// ---------------------------------------------------------------- generators

func c01GenKey(rng *kit.Rand, i int) string {
	u := hex.EncodeToString(rng.Bytes(8))
	switch rng.Intn(12) {
	case 0:
		return fmt.Sprintf("k%d-%s", i, u)
	case 1:
		return fmt.Sprintf("logical/%s/secret/item-%d", u, i)
	case 2:
		return fmt.Sprintf("sys/token/id/%s%d", u, i)
	case 3:
		return fmt.Sprintf("a/b/c/d/e/f/g/h/%d/%s", i, u)
	case 4:
		return fmt.Sprintf("päth/ключ/鍵-%d/%s", i, u)
	case 5:
		return fmt.Sprintf("sp ace/q?x=1&y=%%2F#frag/%d %s", i, u)
	case 6:
		return fmt.Sprintf("long/%s/%d", strings.Repeat(u, 20), i)
	case 7:
		return fmt.Sprintf("auth/%s/role/r%d.", u, i)
	case 8:
		return fmt.Sprintf("core/c01-%d-%s", i, u)
	case 9:
		return fmt.Sprintf("UPPER/lower/%s/%d", strings.ToUpper(u), i)
	case 10:
		return fmt.Sprintf("x/%d", i)
	default:
		return fmt.Sprintf("dir%d/%s/leaf", i, u)
	}
}

func c01GenVal(rng *kit.Rand, i int, big int) (string, []byte) {
	switch i % 14 {
	case 0:
		return "empty", []byte{}
	case 1:
		return "one-zero-byte", []byte{0}
	case 2:
		return "one-byte", []byte{byte('a' + rng.Intn(26))}
	case 3:
		return "short-ascii", []byte("cnry" + hex.EncodeToString(rng.Bytes(6)))
	case 4:
		return "block-16", rng.Bytes(16)
	case 5:
		return "block-15", rng.Bytes(15)
	case 6:
		return "block-17", rng.Bytes(17)
	case 7:
		return "binary", rng.Bytes(100 + rng.Intn(200))
	case 8:
		return "json", []byte(fmt.Sprintf(`{"data":{"password":"cnry%s","n":%d},"ttl":"1h"}`, hex.EncodeToString(rng.Bytes(10)), i))
	case 9:
		// looks like a record itself: valid-looking header followed by noise
		v := append([]byte{0, 0, 0, 1, 2}, rng.Bytes(40)...)
		return "record-lookalike", v
	case 10:
		return "zeros-64", make([]byte, 64)
	case 11:
		return "large", rng.Bytes(big/2 + rng.Intn(big/2))
	case 12:
		return "text-3", []byte("abc")
	default:
		return "medium", rng.Bytes(300 + rng.Intn(300))
	}
}

// ---------------------------------------------------------------- writing

var c01Hows = []string{"plain", "view", "tx", "subview", "viewtx", "tx-multi", "encryptor"}

func c01Split(key string, n int) (prefix, rest string) {
	idx := 0
	for k := 0; k < n; k++ {
		j := strings.IndexByte(key[idx:], '/')
		if j < 0 || idx+j+1 >= len(key) {
			break
		}
		idx += j + 1
	}
	return key[:idx], key[idx:]
}

// put writes val under key through the chosen front door and returns the front door used.
func (e *c01Env) put(how, key string, val []byte) (string, error) {
	ent := func(k string) *logical.StorageEntry {
		return &logical.StorageEntry{Key: k, Value: append([]byte(nil), val...)}
	}
	if !e.tx {
		switch how {
		case "tx", "tx-multi":
			how = "plain"
		case "viewtx":
			how = "view"
		}
	}
	switch how {
	case "plain":
		return how, e.b.Put(c01Ctx, ent(key))
	case "view":
		p, rest := c01Split(key, 1)
		return how, NewView(e.b, p).Put(c01Ctx, ent(rest))
	case "subview":
		p1, rest1 := c01Split(key, 1)
		p2, rest2 := c01Split(rest1, 1)
		return how, NewView(e.b, p1).SubView(p2).Put(c01Ctx, ent(rest2))
	case "tx", "tx-multi":
		txn, err := e.b.(logical.TransactionalStorage).BeginTx(c01Ctx)
		if err != nil {
			return how, err
		}
		if how == "tx-multi" {
			// a read and a second write in the same transaction
			if _, err := txn.Get(c01Ctx, key); err != nil {
				_ = txn.Rollback(c01Ctx)
				return how, err
			}
			if err := txn.Put(c01Ctx, &logical.StorageEntry{Key: key, Value: []byte("overwritten-inside-the-transaction")}); err != nil {
				_ = txn.Rollback(c01Ctx)
				return how, err
			}
		}
		if err := txn.Put(c01Ctx, ent(key)); err != nil {
			_ = txn.Rollback(c01Ctx)
			return how, err
		}
		return how, txn.Commit(c01Ctx)
	case "viewtx":
		p, rest := c01Split(key, 1)
		v, ok := NewView(e.b, p).(TransactionalView)
		if !ok {
			return how, errors.New("view over a transactional barrier is not transactional")
		}
		txn, err := v.BeginTx(c01Ctx)
		if err != nil {
			return how, err
		}
		if err := txn.Put(c01Ctx, ent(rest)); err != nil {
			_ = txn.Rollback(c01Ctx)
			return how, err
		}
		return how, txn.Commit(c01Ctx)
	case "encryptor":
		ct, err := e.b.Encrypt(c01Ctx, key, val)
		if err != nil {
			return how, err
		}
		e.plant(key, ct)
		return how, nil
	}
	return how, fmt.Errorf("unknown how %q", how)
}

// ---------------------------------------------------------------- reading (all front doors)

type c01Read struct {
	Path  string
	Found bool
	Val   []byte
	Err   error
	Panic any
}

func c01Safe(name string, f func() (*logical.StorageEntry, error)) (rd c01Read) {
	rd.Path = name
	defer func() {
		if p := recover(); p != nil {
			rd.Panic = p
		}
	}()
	ent, err := f()
	rd.Err = err
	if ent != nil {
		rd.Found = true
		rd.Val = ent.Value
		if rd.Val == nil {
			rd.Val = []byte{}
		}
	}
	return rd
}

// readers returns the read front doors for key; the stored bytes are already planted.
func (e *c01Env) readers(key string) []func() c01Read {
	p1, rest1 := c01Split(key, 1)
	p2, rest2 := c01Split(rest1, 1)
	rs := []func() c01Read{
		func() c01Read {
			return c01Safe("barrier.Get", func() (*logical.StorageEntry, error) { return e.b.Get(c01Ctx, key) })
		},
		func() c01Read {
			return c01Safe("view.Get", func() (*logical.StorageEntry, error) { return NewView(e.b, p1).Get(c01Ctx, rest1) })
		},
		func() c01Read {
			return c01Safe("subview.Get", func() (*logical.StorageEntry, error) {
				return NewView(e.b, p1).SubView(p2).Get(c01Ctx, rest2)
			})
		},
	}
	if e.tx {
		ts := e.b.(logical.TransactionalStorage)
		rs = append(rs,
			func() c01Read {
				return c01Safe("rotx.Get", func() (*logical.StorageEntry, error) {
					txn, err := ts.BeginReadOnlyTx(c01Ctx)
					if err != nil {
						panic(fmt.Sprintf("verif: BeginReadOnlyTx: %v", err))
					}
					defer txn.Rollback(c01Ctx) //nolint
					return txn.Get(c01Ctx, key)
				})
			},
			func() c01Read {
				return c01Safe("tx.Get", func() (*logical.StorageEntry, error) {
					txn, err := ts.BeginTx(c01Ctx)
					if err != nil {
						panic(fmt.Sprintf("verif: BeginTx: %v", err))
					}
					defer txn.Rollback(c01Ctx) //nolint
					return txn.Get(c01Ctx, key)
				})
			},
			func() c01Read {
				return c01Safe("viewtx.Get", func() (*logical.StorageEntry, error) {
					txn, err := NewView(e.b, p1).(TransactionalView).BeginTx(c01Ctx)
					if err != nil {
						panic(fmt.Sprintf("verif: view BeginTx: %v", err))
					}
					defer txn.Rollback(c01Ctx) //nolint
					return txn.Get(c01Ctx, rest1)
				})
			},
		)
	}
	return rs
}

// decryptAPI is the in-memory Encryptor front door (no store involved).
func (e *c01Env) decryptAPI(key string, rec []byte) c01Read {
	return c01Safe("barrier.Decrypt", func() (*logical.StorageEntry, error) {
		p, err := e.b.Decrypt(c01Ctx, key, append([]byte(nil), rec...))
		if err != nil {
			return nil, err
		}
		if p == nil {
			p = []byte{}
		}
		return &logical.StorageEntry{Key: key, Value: p}, nil
	})
}

func c01Hex(b []byte, n int) string {
	if len(b) > n {
		return hex.EncodeToString(b[:n]) + fmt.Sprintf("...(%d bytes)", len(b))
	}
	return hex.EncodeToString(b)
}

// ---------------------------------------------------------------- O1: record shape

type c01Rec struct {
	Idx    int
	Key    string
	Val    []byte
	Shape  string
	Ver    byte
	Term   uint32
	How    string
	Stored []byte
	// VerClass, if set, is the violation class for "the record carries another format version than expected"
	VerClass string
}

func (rec *c01Rec) wit(e *c01Env) map[string]any {
	return map[string]any{"env": e.id, "record": rec.Idx, "key": rec.Key, "how": rec.How, "version": rec.Ver, "term": rec.Term,
		"value_shape": rec.Shape, "value_len": len(rec.Val), "stored": c01Hex(rec.Stored, 48)}
}

// checkShape applies O1 to one freshly written record. otherKeys are storage keys the record must NOT open under.
func (e *c01Env) checkShape(r *kit.Result, caseID string, rec *c01Rec, kr *c01Keyring, otherKeys []string) {
	w := rec.wit(e)
	st := rec.Stored
	r.Count("records_checked", 1)
	r.Count(fmt.Sprintf("records_v%d", rec.Ver), 1)
	r.Count("records_how_"+rec.How, 1)
	if st == nil {
		r.Violate("C01-shape-missing", caseID, "a successful put left no record under its storage key in the physical store", w)
		return
	}
	if len(st) < c01Overhead {
		r.Violate("C01-shape-header", caseID, fmt.Sprintf("stored record has %d bytes, less than term+version+nonce+tag", len(st)), w)
		return
	}
	term := binary.BigEndian.Uint32(st)
	if term != rec.Term {
		r.Violate("C01-shape-term", caseID, fmt.Sprintf("new write carries term %d, the active term is %d", term, rec.Term), w)
	}
	if st[4] != 1 && st[4] != 2 {
		r.Inconc("record version byte %d is unknown to the harness format table (case %s); extend the table", st[4], caseID)
		return
	}
	if st[4] != rec.Ver {
		cl := "C01-shape-version"
		if rec.VerClass != "" {
			cl = rec.VerClass
		}
		r.Violate(cl, caseID, fmt.Sprintf("new write carries format version %d, expected %d", st[4], rec.Ver), w)
	}
	if len(st) != c01Overhead+len(rec.Val) {
		r.Violate("C01-shape-length", caseID, fmt.Sprintf("stored record has %d bytes for a %d byte value (expected %d)", len(st), len(rec.Val), c01Overhead+len(rec.Val)), w)
	}
	key, ok := kr.Keys[term]
	if !ok {
		r.Violate("C01-shape-term-not-in-persisted-keyring", caseID, fmt.Sprintf("record term %d has no key in the keyring persisted in the store", term), w)
		return
	}
	plain, err := c01Open(key, st, rec.Key)
	if err != nil {
		// say whether it is bound to nothing (legacy behaviour under a v2 header) for a sharper witness
		if st[4] == 2 {
			if p2, err2 := c01OpenAAD(key, st, nil); err2 == nil && bytes.Equal(p2, rec.Val) {
				r.Violate("C01-shape-not-key-bound", caseID, "version-2 record is sealed without the storage key as additional data (opens with empty additional data only)", w)
				return
			}
		}
		r.Violate("C01-shape-not-authentic", caseID, "stored record does not open under the persisted term key with the storage key as additional data: "+err.Error(), w)
		return
	}
	if !bytes.Equal(plain, rec.Val) {
		r.Violate("C01-shape-wrong-plaintext", caseID, "stored record opens to a value different from the one written", w)
	}
	r.Count("records_opened_independently", 1)
	// key binding: must not open under any other storage key, nor with no additional data
	if st[4] == 2 {
		neg := append([]string{"", rec.Key + "/", strings.TrimSuffix(rec.Key, rec.Key[len(rec.Key)-1:]), strings.ToUpper(rec.Key), "/" + rec.Key}, otherKeys...)
		for _, ok2 := range neg {
			if ok2 == rec.Key {
				continue
			}
			var aad []byte
			if ok2 != "" {
				aad = []byte(ok2)
			}
			if _, err := c01OpenAAD(key, st, aad); err == nil {
				w["opens_under"] = ok2
				r.Violate("C01-shape-not-key-bound", caseID, fmt.Sprintf("version-2 record written under %q also opens under storage key %q", rec.Key, ok2), w)
				break
			}
			r.Count("binding_negative_checks", 1)
		}
	} else {
		r.Count("legacy_v1_records_relocatable_by_design", 1)
	}
	// other term keys must not open it
	for t2, k2 := range kr.Keys {
		if t2 == term {
			continue
		}
		if _, err := c01Open(k2, st, rec.Key); err == nil {
			r.Violate("C01-shape-opens-under-other-term", caseID, fmt.Sprintf("record of term %d opens under the key of term %d", term, t2), w)
		}
	}
	if _, err := c01Open(kr.Root, st, rec.Key); err == nil {
		r.Violate("C01-shape-opens-under-root-key", caseID, "data record opens under the root key", w)
	}
	// confidentiality: no fragment of the plaintext in the stored bytes
	if frag := c01Fragment(st, rec.Val); frag >= 0 {
		w["fragment_offset_in_value"] = frag
		r.Violate("C01-plaintext-in-record", caseID, "a fragment of the plaintext value appears in the stored record", w)
	}
	if bytes.Contains(st, key) {
		r.Violate("C01-key-material-in-physical-store", caseID, "the term key appears in a stored record", w)
	}
	// nonce uniqueness per term key
	nk := fmt.Sprintf("%d|%x", term, st[c01Hdr:c01Hdr+c01Nonce])
	if prev, dup := e.nonces[nk]; dup {
		w["first_use"] = prev
		r.Violate("C01-nonce-reuse", caseID, "two records sealed under the same term key share a nonce", w)
	}
	e.nonces[nk] = rec.Key
	r.Count("nonces_distinct", 1)
}

// c01Fragment reports the offset of an 8-byte fragment of val that occurs in st (-1 = none).
func c01Fragment(st, val []byte) int {
	if len(val) < 8 {
		return -1
	}
	if allSame(val) {
		return -1 // no information: a constant run cannot be told from chance
	}
	step := 1
	if len(val) > 2048 {
		step = len(val) / 64 // at most ~64 probes into a large value
	}
	for off := 0; off+8 <= len(val); off += step {
		if allSame(val[off : off+8]) {
			continue
		}
		if bytes.Contains(st, val[off:off+8]) {
			return off
		}
	}
	return -1
}

func allSame(b []byte) bool {
	for _, x := range b {
		if x != b[0] {
			return false
		}
	}
	return true
}

// checkMeta applies O1 to the keyring and root-key records.
func (e *c01Env) checkMeta(r *kit.Result, caseID, stage string) *c01Keyring {
	w := map[string]any{"env": e.id, "stage": stage}
	kr, err := e.refKeyring()
	if err != nil {
		if errors.Is(err, errC01UnknownVersion) {
			r.Inconc("keyring record version unknown to the harness (case %s)", caseID)
			return nil
		}
		r.Violate("C01-keyring-record", caseID, "keyring record: "+err.Error(), w)
		return nil
	}
	r.Count("keyring_records_checked", 1)
	if !bytes.Equal(kr.Root, e.root) {
		r.Violate("C01-keyring-record", caseID, "keyring payload does not carry the current root key", w)
	}
	if kr.Active != e.expTerm {
		r.Violate("C01-keyring-record", caseID, fmt.Sprintf("persisted keyring has active term %d, expected %d", kr.Active, e.expTerm), w)
	}
	for t := uint32(1); t <= e.expTerm; t++ {
		if len(kr.Keys[t]) != 32 {
			r.Violate("C01-keyring-record", caseID, fmt.Sprintf("persisted keyring lacks a 256-bit key for term %d", t), w)
		}
	}
	// keyring record bound to its path (v2) and not readable with a term key
	krec := e.raw(e.meta + KeyringPath)
	if krec[4] == 2 {
		if _, err := c01OpenAAD(e.root, krec, nil); err == nil {
			r.Violate("C01-shape-not-key-bound", caseID, "keyring record opens without additional data", w)
		}
		if _, err := c01OpenAAD(e.root, krec, []byte(e.meta+RootKeyPath)); err == nil {
			r.Violate("C01-shape-not-key-bound", caseID, "keyring record opens under the root-key path", w)
		}
	}
	for _, k := range kr.Keys {
		if _, err := c01Open(k, krec, e.meta+KeyringPath); err == nil {
			r.Violate("C01-keyring-record", caseID, "keyring record opens under a term key", w)
		}
	}
	// root-key record: sealed with the active term key, carries the root key
	rrec := e.raw(e.meta + RootKeyPath)
	if rrec == nil || len(rrec) < c01Overhead {
		r.Violate("C01-rootkey-record", caseID, "root-key record missing or too short", w)
	} else {
		term := binary.BigEndian.Uint32(rrec)
		if term != kr.Active {
			r.Violate("C01-rootkey-record", caseID, fmt.Sprintf("root-key record carries term %d, active term %d", term, kr.Active), w)
		}
		if k, ok := kr.Keys[term]; ok {
			plain, err := c01Open(k, rrec, e.meta+RootKeyPath)
			if err != nil {
				r.Violate("C01-rootkey-record", caseID, "root-key record does not open under the active term key: "+err.Error(), w)
			} else {
				var kk struct{ Value []byte }
				if json.Unmarshal(plain, &kk) != nil || !bytes.Equal(kk.Value, e.root) {
					r.Violate("C01-rootkey-record", caseID, "root-key record does not carry the root key", w)
				}
				r.Count("rootkey_records_checked", 1)
			}
		}
	}
	return kr
}

// audit walks the whole physical store: every record is either a meta record or opens to the model value;
// no key material or plaintext value appears anywhere.
func (e *c01Env) audit(r *kit.Result, caseID string, kr *c01Keyring) {
	snap := e.probe.Snapshot()
	keys := make([]string, 0, len(snap))
	for k := range snap {
		keys = append(keys, k)
	}
	sort.Strings(keys)
	var secrets [][]byte
	secrets = append(secrets, kr.Root)
	for _, k := range kr.Keys {
		secrets = append(secrets, k)
	}
	if e.sealKey != nil {
		secrets = append(secrets, e.sealKey)
	}
	for _, k := range keys {
		st := snap[k]
		w := map[string]any{"env": e.id, "key": k, "stored": c01Hex(st, 48)}
		for _, s := range secrets {
			for _, form := range [][]byte{s, []byte(base64.StdEncoding.EncodeToString(s)), []byte(hex.EncodeToString(s))} {
				if bytes.Contains(st, form) || strings.Contains(k, string(form)) {
					r.Violate("C01-key-material-in-physical-store", caseID, "key material (root key, term key or seal key; raw/base64/hex) appears in the physical store under "+k, w)
				}
			}
		}
		r.Count("audit_records", 1)
		if k == e.meta+KeyringPath || k == e.meta+RootKeyPath {
			continue
		}
		want, known := e.model[k]
		if !known {
			if strings.HasPrefix(k, e.meta+KeyringUpgradePrefix) {
				// upgrade record: sealed under the previous term key, carries the next term key
				var prev uint32
				fmt.Sscanf(strings.TrimPrefix(k, e.meta+KeyringUpgradePrefix), "%d", &prev)
				if len(st) >= c01Overhead && binary.BigEndian.Uint32(st) == prev {
					if p, err := c01Open(kr.Keys[prev], st, k); err == nil {
						var kk struct {
							Term  uint32
							Value []byte
						}
						if json.Unmarshal(p, &kk) == nil && kk.Term == prev+1 && bytes.Equal(kk.Value, kr.Keys[prev+1]) {
							r.Count("upgrade_records_checked", 1)
							continue
						}
					}
				}
				r.Violate("C01-upgrade-record", caseID, "keyring upgrade record is not the next term key sealed under the previous term key", w)
				continue
			}
			r.Violate("C01-shape-unaccounted-record", caseID, "physical store holds a record the harness never wrote through the barrier: "+k, w)
			continue
		}
		if len(st) < c01Overhead {
			r.Violate("C01-shape-header", caseID, "stored record too short", w)
			continue
		}
		tk, ok := kr.Keys[binary.BigEndian.Uint32(st)]
		if !ok {
			r.Violate("C01-shape-term-not-in-persisted-keyring", caseID, "record term has no key in the persisted keyring", w)
			continue
		}
		p, err := c01Open(tk, st, k)
		if err != nil || !bytes.Equal(p, want) {
			r.Violate("C01-shape-not-authentic", caseID, fmt.Sprintf("record at rest does not open to the last value written under its key (err=%v)", err), w)
			continue
		}
		if frag := c01Fragment(st, want); frag >= 0 {
			r.Violate("C01-plaintext-in-record", caseID, "a fragment of the plaintext value appears in the stored record", w)
		}
		// and the system itself returns exactly that value through every front door
		for _, rd := range e.readers(k) {
			x := rd()
			r.Eval(1)
			if x.Panic != nil || x.Err != nil || !x.Found || !bytes.Equal(x.Val, want) {
				w["path"] = x.Path
				w["outcome"] = c01Outcome(x)
				r.Violate("C01-roundtrip", caseID, "reading an untouched record does not return the last value written under its key", w)
			}
			r.Count("roundtrip_reads", 1)
		}
	}
}

func c01Outcome(x c01Read) string {
	switch {
	case x.Panic != nil:
		return fmt.Sprintf("panic: %v", x.Panic)
	case x.Err != nil:
		return "error: " + x.Err.Error()
	case !x.Found:
		return "absent (nil entry, nil error)"
	}
	return "value " + c01Hex(x.Val, 32)
}

func TestVerif_C01_RecordShape(t *testing.T) {
	seed := kit.Seed(1)
	_, shards := kit.Shard()
	r := kit.NewResult(t, "c01-record-shape", seed, "seeded histories on a barrier over a probe store (transactional / plain store x root / namespace barrier x with / without seal-key record): puts through barrier, views, sub-views, transactions, view transactions, multi-write transactions and the Encryptor API, of empty / 1-byte / block-edge / binary / JSON / record-lookalike / large values, under format version 2 and legacy version 1, across key terms produced by Rotate, with RotateRootKey, CreateUpgrade and seal+unseal in between; after every put the stored bytes are opened with crypto/aes+cipher.NewGCM using the keyring recovered from the store with the root key: header term = active term, version as configured (2 by default), exact length, opens only with the storage key as additional data (not with empty / neighbouring / other keys, not under other term keys or the root key), no 8-byte plaintext fragment, fresh nonce; keyring and root-key records are opened with the root key / active key; at the end the whole store is audited. A record check is non-trivial when the value is non-empty; distinct = (config, how, version, term, value shape)")
	defer r.Write(t)
	nHist := kit.N(12, 1200)
	steps := kit.N(70, 160)
	big := kit.N(64<<10, 1<<20)
	for h := 0; h < nHist; h++ {
		if !c01Mine(h) {
			continue
		}
		caseID := fmt.Sprintf("shape:%d", h)
		if !kit.WantCase(caseID) {
			continue
		}
		rng := kit.NewRand(seed, uint64(1000+h))
		e := c01NewEnv(t, h, rng)
		kr := e.checkMeta(r, caseID, "after-initialize")
		if kr == nil {
			continue
		}
		if e.sealKey != nil {
			// the seal-key record written by Initialize is an ordinary term-1 record
			rec := &c01Rec{Idx: -1, Key: e.meta + ShamirKekPath, Val: e.sealKey, Shape: "seal-key", Ver: e.defVer, Term: 1, How: "initialize", Stored: e.raw(e.meta + ShamirKekPath)}
			e.checkShape(r, caseID, rec, kr, nil)
		}
		if e.defVer != 2 {
			r.Violate("C01-shape-version", caseID, fmt.Sprintf("a new barrier writes format version %d by default, the current format is 2", e.defVer), map[string]any{"env": e.id})
		}
		var keys []string
		legacyLeft := 0
		maxTerm := uint32(kit.N(5, 8))
		for s := 0; s < steps; s++ {
			r.Eval(1)
			c := rng.Intn(100)
			switch {
			case c < 4 && e.expTerm < maxTerm:
				nt, err := e.b.Rotate(c01Ctx)
				if err != nil {
					t.Fatalf("verif: rotate: %v", err)
				}
				e.expTerm++
				if nt != e.expTerm {
					r.Violate("C01-shape-term", caseID, fmt.Sprintf("Rotate returned term %d, expected %d", nt, e.expTerm), nil)
				}
				r.Count("rotations", 1)
				if kr = e.checkMeta(r, caseID, "after-rotate"); kr == nil {
					return
				}
				if e.expTerm > 1 && rng.Chance(1, 2) {
					if err := e.b.CreateUpgrade(c01Ctx, e.expTerm); err != nil {
						t.Fatalf("verif: create upgrade: %v", err)
					}
					r.Count("upgrades_created", 1)
				}
			case c < 6:
				nk, _ := e.b.GenerateKey()
				if err := e.b.RotateRootKey(c01Ctx, nk); err != nil {
					t.Fatalf("verif: rotate root key: %v", err)
				}
				e.root = nk
				r.Count("root_key_rotations", 1)
				if kr = e.checkMeta(r, caseID, "after-rotate-root-key"); kr == nil {
					return
				}
			case c < 9:
				legacyLeft = 1 + rng.Intn(3)
			case c < 12:
				// seal and unseal from the store: the persisted state alone must carry on
				if err := e.b.Seal(); err != nil {
					t.Fatalf("verif: seal: %v", err)
				}
				if _, err := e.b.Get(c01Ctx, "x/0"); err == nil {
					r.Violate("C01-sealed-read", caseID, "a sealed barrier served a read", nil)
				}
				if err := e.b.Unseal(c01Ctx, e.root); err != nil {
					r.Violate("C01-keyring-record", caseID, "barrier does not unseal from its persisted keyring with the current root key: "+err.Error(), map[string]any{"env": e.id})
					return
				}
				r.Count("seal_unseal_cycles", 1)
			case c < 14 && len(keys) > 0:
				k := kit.Pick(rng, keys)
				if err := e.b.Delete(c01Ctx, k); err != nil {
					t.Fatalf("verif: delete: %v", err)
				}
				delete(e.model, k)
				if e.raw(k) != nil {
					r.Violate("C01-delete-left-record", caseID, "delete left the record in the physical store", map[string]any{"key": k})
				}
			default:
				var key string
				if len(keys) > 0 && rng.Chance(1, 6) {
					key = kit.Pick(rng, keys) // overwrite
					r.Count("overwrites", 1)
				} else {
					key = c01GenKey(rng, s)
					keys = append(keys, key)
				}
				shape, val := c01GenVal(rng, rng.Intn(14), big)
				if shape == "large" {
					if r.Get("large_values") >= int64(kit.N(6, 40)) {
						shape, val = "binary", rng.Bytes(200)
					} else {
						r.Count("large_values", 1)
					}
				}
				ver := e.defVer
				if legacyLeft > 0 {
					legacyLeft--
					ver = 1
				}
				e.aes.currentAESGCMVersionByte = ver
				how, err := e.put(kit.Pick(rng, c01Hows), key, val)
				e.aes.currentAESGCMVersionByte = e.defVer
				if err != nil {
					t.Fatalf("verif: put %s %q: %v", how, key, err)
				}
				e.model[key] = val
				rec := &c01Rec{Idx: s, Key: key, Val: val, Shape: shape, Ver: ver, Term: e.expTerm, How: how, Stored: e.raw(key)}
				var others []string
				for k := 0; k < 3 && k < len(keys); k++ {
					others = append(others, kit.Pick(rng, keys))
				}
				e.checkShape(r, caseID, rec, kr, others)
				if len(val) > 0 {
					if r.Nontrivial(fmt.Sprintf("%d|%s|%d|%d|%s", e.cfg%len(c01Configs), how, ver, e.expTerm, shape)) {
						r.Sample(map[string]any{"case": caseID, "env": e.id, "key": key, "how": how, "version": ver, "term": e.expTerm, "value_shape": shape, "value_len": len(val), "stored_len": len(rec.Stored), "stored_head": c01Hex(rec.Stored, 24)})
					}
				}
				if len(val) == 0 {
					r.Count("empty_values", 1)
				}
				if e.expTerm > 1 {
					r.Count("records_after_rotation", 1)
				}
			}
			if r.NViolations() > 40 {
				return
			}
		}
		if kr = e.checkMeta(r, caseID, "end"); kr != nil {
			e.audit(r, caseID, kr)
		}
		r.Count("histories", 1)
	}
	r.Require("records_checked", int64(kit.N(300, 20000)/shards))
	r.Require("records_opened_independently", int64(kit.N(300, 20000)/shards))
	r.Require("binding_negative_checks", int64(kit.N(1000, 100000)/shards))
	r.Require("records_v1", 5)
	r.Require("records_after_rotation", 30)
	r.Require("records_how_tx", 5)
	r.Require("records_how_viewtx", 5)
	r.Require("records_how_view", 5)
	r.Require("keyring_records_checked", 10)
	r.Require("rootkey_records_checked", 10)
	r.Require("roundtrip_reads", 100)
	r.Require("empty_values", 3)
}

// ---------------------------------------------------------------- O2: tamper oracle

type c01Mut struct {
	Kind  string // class of mutation (for distinct counting)
	Desc  string
	Allow []byte // a value that is an acceptable answer besides an error (relocated legacy v1 record), nil = none
}

// forEachMutation calls f with every mutated image of rec.Stored (the buffer is reused between calls).
func (e *c01Env) forEachMutation(rng *kit.Rand, rec *c01Rec, others []*c01Rec, kr *c01Keyring, f func(m c01Mut, data []byte) bool) {
	st := rec.Stored
	L := len(st)
	buf := make([]byte, 0, L+L+8)
	emit := func(kind, desc string, data []byte) bool {
		if bytes.Equal(data, st) {
			return true
		}
		return f(c01Mut{Kind: kind, Desc: desc}, data)
	}
	region := func(i int) string {
		switch {
		case i < 4:
			return "term"
		case i < 5:
			return "version"
		case i < c01Hdr+c01Nonce:
			return "nonce"
		case i >= L-c01Tag:
			return "tag"
		}
		return "body"
	}
	// single-bit flips
	var positions []int
	if L <= 512 {
		for i := 0; i < L; i++ {
			positions = append(positions, i)
		}
	} else {
		for i := 0; i < c01Hdr+c01Nonce+8; i++ {
			positions = append(positions, i)
		}
		for i := L - c01Tag - 8; i < L; i++ {
			positions = append(positions, i)
		}
		for k := 0; k < 48; k++ {
			positions = append(positions, c01Hdr+c01Nonce+8+rng.Intn(L-c01Overhead-16))
		}
	}
	for _, i := range positions {
		for bit := 0; bit < 8; bit++ {
			buf = append(buf[:0], st...)
			buf[i] ^= 1 << bit
			if !emit("bitflip-"+region(i), fmt.Sprintf("flip bit %d of byte %d (%s)", bit, i, region(i)), buf) {
				return
			}
		}
	}
	// byte substitutions in the header and the tag
	for _, i := range []int{0, 1, 2, 3, 4, 5, L - 1} {
		for _, v := range []byte{0x00, 0xff, st[i] + 1} {
			buf = append(buf[:0], st...)
			buf[i] = v
			if !emit("bytesub-"+region(i), fmt.Sprintf("set byte %d to %#x", i, v), buf) {
				return
			}
		}
	}
	// truncations
	var lens []int
	if L <= 512 {
		for n := 0; n < L; n++ {
			lens = append(lens, n)
		}
	} else {
		for n := 0; n < 80; n++ {
			lens = append(lens, n)
		}
		for n := L - 40; n < L; n++ {
			lens = append(lens, n)
		}
		for k := 0; k < 40; k++ {
			lens = append(lens, 80+rng.Intn(L-120))
		}
	}
	for _, n := range lens {
		if !emit("truncate", fmt.Sprintf("truncate to %d of %d bytes", n, L), st[:n]) {
			return
		}
	}
	// head truncation (drop leading bytes)
	for _, n := range []int{1, 4, 5, c01Hdr + c01Nonce} {
		if n < L {
			if !emit("truncate-head", fmt.Sprintf("drop the first %d bytes", n), st[n:]) {
				return
			}
		}
	}
	// extensions
	for n := 1; n <= 3; n++ {
		buf = append(append(buf[:0], st...), make([]byte, n)...)
		if !emit("extend", fmt.Sprintf("append %d zero bytes", n), buf) {
			return
		}
		buf = append(append(buf[:0], st...), rng.Bytes(n)...)
		if !emit("extend", fmt.Sprintf("append %d random bytes", n), buf) {
			return
		}
	}
	buf = append(append(buf[:0], st...), make([]byte, 16)...)
	if !emit("extend", "append a zero block", buf) {
		return
	}
	if L <= 4096 {
		buf = append(append(buf[:0], st...), st...)
		if !emit("extend", "append the record to itself", buf) {
			return
		}
		buf = append(append(buf[:0], st...), st[c01Hdr:]...)
		if !emit("extend", "append nonce+ciphertext+tag again", buf) {
			return
		}
	}
	// header rewrites: term
	term := binary.BigEndian.Uint32(st)
	terms := []uint32{term - 1, term + 1, 0, 0xffffffff, term << 24, term + 0x100}
	for t2 := range kr.Keys {
		terms = append(terms, t2)
	}
	sort.Slice(terms, func(i, j int) bool { return terms[i] < terms[j] })
	vers := []byte{0, 1, 2, 3, 0x80, 0xff}
	for _, t2 := range terms {
		buf = append(buf[:0], st...)
		binary.BigEndian.PutUint32(buf, t2)
		if !emit("header-term", fmt.Sprintf("rewrite term %d -> %d", term, t2), buf) {
			return
		}
		for _, v2 := range vers {
			buf[4] = v2
			if !emit("header-term+version", fmt.Sprintf("rewrite term %d -> %d and version %d -> %d", term, t2, st[4], v2), buf) {
				return
			}
		}
	}
	for _, v2 := range vers {
		buf = append(buf[:0], st...)
		buf[4] = v2
		if !emit("header-version", fmt.Sprintf("rewrite version %d -> %d", st[4], v2), buf) {
			return
		}
	}
	// blanking
	buf = append(buf[:0], st...)
	clear(buf[c01Hdr : c01Hdr+c01Nonce])
	if !emit("blank", "zero the nonce", buf) {
		return
	}
	buf = append(buf[:0], st...)
	clear(buf[L-c01Tag:])
	if !emit("blank", "zero the tag", buf) {
		return
	}
	buf = append(buf[:0], st...)
	clear(buf[c01Hdr:])
	if !emit("blank", "zero everything after the header", buf) {
		return
	}
	if !emit("blank", "all-zero record of the same length", make([]byte, L)) {
		return
	}
	if !emit("blank", "header only (5 bytes) + one byte", append(append(buf[:0], st[:5]...), 0)) {
		return
	}
	// the plaintext itself, and the plaintext behind a valid header
	if !emit("plaintext", "store the plaintext value itself", rec.Val) {
		return
	}
	buf = append(append(buf[:0], st[:5]...), rec.Val...)
	if !emit("plaintext", "store header + plaintext", buf) {
		return
	}
	buf = append(append(append(buf[:0], st[:c01Hdr+c01Nonce]...), rec.Val...), make([]byte, c01Tag)...)
	if !emit("plaintext", "store header + nonce + plaintext + zero tag", buf) {
		return
	}
	// forged records: well-formed, right additional data, attacker's key
	for _, v2 := range []byte{1, 2} {
		forged := c01Seal(rng.Bytes(32), term, v2, rng.Bytes(12), rec.Val, rec.Key)
		if !emit("forge", fmt.Sprintf("well-formed version-%d record sealed under an attacker key", v2), forged) {
			return
		}
	}
	forged := c01Seal(make([]byte, 32), term, st[4], st[c01Hdr:c01Hdr+c01Nonce], rec.Val, rec.Key)
	if !emit("forge", "well-formed record sealed under the all-zero key with the original nonce", forged) {
		return
	}
	// splices with other records
	for _, o := range others {
		os := o.Stored
		if len(os) < c01Overhead || o == rec {
			continue
		}
		buf = append(append(buf[:0], st[:c01Hdr+c01Nonce]...), os[c01Hdr+c01Nonce:]...)
		if !emit("splice", fmt.Sprintf("own header+nonce with ciphertext+tag of record %d", o.Idx), buf) {
			return
		}
		buf = append(append(buf[:0], os[:c01Hdr+c01Nonce]...), st[c01Hdr+c01Nonce:]...)
		if !emit("splice", fmt.Sprintf("header+nonce of record %d with own ciphertext+tag", o.Idx), buf) {
			return
		}
		buf = append(append(buf[:0], st[:L-c01Tag]...), os[len(os)-c01Tag:]...)
		if !emit("splice", fmt.Sprintf("own ciphertext with the tag of record %d", o.Idx), buf) {
			return
		}
		buf = append(append(buf[:0], st[:c01Hdr]...), os[c01Hdr:]...)
		if bytes.Equal(buf, os) && os[4] == 1 {
			// same header: this is record o itself moved to this key; o is a legacy v1 record, which the
			// property documents as authenticated but relocatable, so o's value (or an error) is acceptable
			if !f(c01Mut{Kind: "transplant-into-legacy", Desc: fmt.Sprintf("replace by legacy v1 record %d of the same term", o.Idx), Allow: o.Val}, buf) {
				return
			}
		} else if !emit("splice", fmt.Sprintf("own header with nonce+ciphertext+tag of record %d", o.Idx), buf) {
			return
		}
	}
}

// c01Judge classifies the outcome of reading a tampered / transplanted record.
// allowValue: the original value is an acceptable answer (transplanted legacy record).
func c01Judge(r *kit.Result, caseID, what string, x c01Read, orig []byte, allowValue bool, allow []byte, w map[string]any) {
	r.Eval(1)
	r.Count("reads_judged", 1)
	r.Count("reads_via_"+x.Path, 1)
	viol := func(class, msg string) {
		ww := map[string]any{"path": x.Path, "outcome": c01Outcome(x), "mutation": what}
		for k, v := range w {
			ww[k] = v
		}
		r.Violate(class, caseID, msg+" ["+what+"] via "+x.Path, ww)
	}
	switch {
	case x.Panic != nil:
		viol("C01-tamper-panic", "reading an altered record panicked instead of failing with an error")
	case x.Err != nil:
		r.Count("rejected_with_error", 1)
	case !x.Found:
		viol("C01-tamper-read-as-absent", "an altered record read as absent (nil entry, nil error)")
	case allow != nil && bytes.Equal(x.Val, allow):
		r.Count("legacy_v1_relocated_value_returned", 1)
	case bytes.Equal(x.Val, orig):
		if allowValue {
			r.Count("legacy_v1_relocated_value_returned", 1)
		} else {
			viol("C01-tamper-accepted", "an altered or transplanted record was accepted and its original value returned (record not authenticated / not bound)")
		}
	default:
		viol("C01-tamper-wrong-value", "an altered or transplanted record returned a value that was never written under that key")
	}
}

// buildRecords writes the deterministic record set of one configuration.
func (e *c01Env) buildRecords(t *testing.T, rng *kit.Rand, n, nTerms, big int) []*c01Rec {
	var recs []*c01Rec
	perTerm := (n + nTerms - 1) / nTerms
	for i := 0; i < n; i++ {
		if i > 0 && i%perTerm == 0 {
			if _, err := e.b.Rotate(c01Ctx); err != nil {
				t.Fatalf("verif: rotate: %v", err)
			}
			e.expTerm++
		}
		var key string
		switch {
		case i%7 == 5 && len(recs) > 0:
			key = recs[len(recs)-1].Key + "/child" // a key extending a sibling key
		case i%7 == 6 && len(recs) > 0:
			key = recs[len(recs)-1].Key + "x"
		default:
			key = c01GenKey(rng, i)
		}
		shape, val := c01GenVal(rng, i, big)
		if shape == "large" && i >= 14*kit.N(1, 3) {
			shape, val = "binary", rng.Bytes(150)
		}
		ver := e.defVer
		if i%4 == 2 {
			ver = 1
		}
		e.aes.currentAESGCMVersionByte = ver
		how, err := e.put(c01Hows[(i/2)%len(c01Hows)], key, val)
		e.aes.currentAESGCMVersionByte = e.defVer
		if err != nil {
			t.Fatalf("verif: put: %v", err)
		}
		e.model[key] = val
		recs = append(recs, &c01Rec{Idx: i, Key: key, Val: val, Shape: shape, Ver: ver, Term: e.expTerm, How: how, Stored: e.raw(key)})
	}
	return recs
}

func TestVerif_C01_Tamper(t *testing.T) {
	seed := kit.Seed(1)
	_, shards := kit.Shard()
	r := kit.NewResult(t, "c01-tamper", seed, "for every record of a deterministic record set (4 store/barrier configurations x 1 (quick) / 10 (thorough) record sets x both format versions x key terms from Rotate x 7 write front doors x 14 value shapes): every single-bit flip (all bits up to 512 B, header/nonce/tag/edges + sampled body bits above), byte substitutions, every truncation length, head truncations, 1-3/16 appended bytes and self-concatenation, every term / version header rewrite (neighbouring, live, zero, huge, unknown), blanked nonce/tag/body, the plaintext itself (bare / behind the header), forged well-formed records under attacker keys, splices with other records, and transplants to every other live key and to fresh look-alike keys; each image is planted in the physical store and read through barrier.Get, view, sub-view, read-only tx, read-write tx, view tx and the Decrypt API. Expected: an error (never a panic, never 'absent', never a value) - except a transplanted legacy v1 record, which may return its value. Non-trivial = image differs from the stored bytes; distinct = (config, record, mutation class)")
	defer r.Write(t)
	rounds := kit.N(1, 10) // record sets per configuration (small stores keep the per-read transaction snapshots cheap)
	nRec := kit.N(24, 100)
	nTerms := kit.N(3, 7)
	big := kit.N(48<<10, 512<<10)
	for cfg := 0; cfg < rounds*len(c01Configs); cfg++ {
		rng := kit.NewRand(seed, uint64(2000+cfg))
		var e *c01Env
		var recs []*c01Rec
		var kr *c01Keyring
		build := func() {
			e = c01NewEnv(t, cfg, rng)
			recs = e.buildRecords(t, rng, nRec, nTerms, big)
			var err error
			if kr, err = e.refKeyring(); err != nil {
				t.Fatalf("verif: %v", err)
			}
		}
		for i := 0; i < nRec; i++ {
			if !c01Mine(cfg*1000 + i) {
				continue
			}
			caseID := fmt.Sprintf("tamper:%d:%d", cfg, i)
			if !kit.WantCase(caseID) {
				continue
			}
			if e == nil {
				build()
			}
			rec := recs[i]
			mrng := kit.NewRand(seed, uint64(3000+cfg*1000+i))
			w := rec.wit(e)
			if len(rec.Stored) < c01Overhead {
				r.Violate("C01-shape-header", caseID, "stored record too short to tamper with", w)
				continue
			}
			// sanity: untouched record reads back (otherwise the oracle below would be vacuous)
			for _, rd := range e.readers(rec.Key) {
				if x := rd(); x.Err != nil || !x.Found || !bytes.Equal(x.Val, rec.Val) {
					r.Violate("C01-roundtrip", caseID, "untouched record does not read back via "+x.Path+": "+c01Outcome(x), w)
				}
			}
			r.Count("records_tampered", 1)
			r.Count(fmt.Sprintf("records_tampered_v%d", rec.Ver), 1)
			r.Count(fmt.Sprintf("records_tampered_term%d", rec.Term), 1)
			// neighbours for splices: same term first
			var others []*c01Rec
			for _, o := range recs {
				if o != rec && o.Term == rec.Term && len(others) < 3 {
					others = append(others, o)
				}
			}
			for _, o := range recs {
				if o != rec && o.Term != rec.Term && len(others) < 5 {
					others = append(others, o)
				}
			}
			readers := e.readers(rec.Key)
			stop := false
			e.forEachMutation(mrng, rec, others, kr, func(m c01Mut, data []byte) bool {
				r.Count("mutations", 1)
				r.Count("mutations_"+m.Kind, 1)
				r.Nontrivial(fmt.Sprintf("%d|%d|%s", cfg, i, m.Kind))
				e.plant(rec.Key, data)
				mw := map[string]any{"image": c01Hex(data, 48), "image_len": len(data)}
				for k, v := range w {
					mw[k] = v
				}
				for _, rd := range readers {
					c01Judge(r, caseID, m.Desc, rd(), rec.Val, false, m.Allow, mw)
				}
				c01Judge(r, caseID, m.Desc, e.decryptAPI(rec.Key, data), rec.Val, false, m.Allow, mw)
				if r.NViolations() > 60 {
					stop = true
					return false
				}
				return true
			})
			e.plant(rec.Key, rec.Stored)
			if stop {
				return
			}
			// transplants: to every other live key and to fresh look-alikes
			type target struct {
				key   string
				fresh bool
			}
			var targets []target
			for _, o := range recs {
				if o != rec {
					targets = append(targets, target{o.Key, false})
				}
			}
			if len(targets) > kit.N(20, 40) {
				mrng.Shuffle(len(targets), func(a, b int) { targets[a], targets[b] = targets[b], targets[a] })
				targets = targets[:kit.N(20, 40)]
			}
			p1, rest1 := c01Split(rec.Key, 1)
			for _, fk := range []string{rec.Key + "/", rec.Key + "x", rec.Key + "/x", rec.Key[:len(rec.Key)-1], strings.ToUpper(rec.Key), strings.ToLower(rec.Key),
				"z" + rec.Key, rest1, p1 + p1 + rest1, e.meta + rec.Key, NamespacePrefix + "00000000-0000-0000-0000-00000000c001/" + rec.Key, rec.Key + "\x00", " " + rec.Key} {
				if fk != "" && fk != rec.Key && !strings.HasSuffix(fk, "/") {
					if _, live := e.model[fk]; !live {
						targets = append(targets, target{fk, true})
					}
				}
			}
			for _, tg := range targets {
				saved := e.raw(tg.key)
				e.plant(tg.key, rec.Stored)
				kind := "transplant-live-key"
				if tg.fresh {
					kind = "transplant-fresh-key"
				}
				r.Count("mutations", 1)
				r.Count("mutations_"+kind, 1)
				r.Count(fmt.Sprintf("transplants_v%d", rec.Ver), 1)
				r.Nontrivial(fmt.Sprintf("%d|%d|%s", cfg, i, kind))
				desc := fmt.Sprintf("transplant record from %q to %q", rec.Key, tg.key)
				mw := map[string]any{"target": tg.key}
				for k, v := range w {
					mw[k] = v
				}
				for _, rd := range e.readers(tg.key) {
					c01Judge(r, caseID, desc, rd(), rec.Val, rec.Ver == 1, nil, mw)
				}
				c01Judge(r, caseID, desc, e.decryptAPI(tg.key, rec.Stored), rec.Val, rec.Ver == 1, nil, mw)
				if saved != nil {
					e.plant(tg.key, saved)
				} else {
					e.unplant(tg.key)
				}
				// the same relocation at the entry level: the backend answers a read of the
				// target key with the whole entry it holds for the source (entry key included)
				e.probe.Alias(tg.key, rec.Key)
				r.Count("mutations", 1)
				r.Count("mutations_"+kind+"-entry-level", 1)
				desc = fmt.Sprintf("backend serves the entry of %q (with its entry key) for a read of %q", rec.Key, tg.key)
				for _, rd := range e.readers(tg.key) {
					c01Judge(r, caseID, desc, rd(), rec.Val, rec.Ver == 1, nil, mw)
				}
				e.probe.Unalias(tg.key)
			}
			if len(r.Samples) < 6 {
				r.Sample(map[string]any{"case": caseID, "env": e.id, "key": rec.Key, "how": rec.How, "version": rec.Ver, "term": rec.Term, "value_shape": rec.Shape, "stored_len": len(rec.Stored), "transplant_targets": len(targets)})
			}
		}
		if e == nil {
			continue
		}
		// the store is back to its original state: audit it (also proves the restores above worked)
		if kit.OnlyCase() == "" {
			e.audit(r, fmt.Sprintf("tamper-audit:%d", cfg), kr)
		}
		// keyring / root-key records: a fresh barrier instance must refuse an altered keyring record
		caseID := fmt.Sprintf("tamper-keyring:%d", cfg)
		if kit.WantCase(caseID) && c01Mine(cfg) {
			e.tamperMeta(t, r, caseID, kit.NewRand(seed, uint64(9000+cfg)))
		}
	}
	r.Require("records_tampered", int64(kit.N(80, 3000)/shards))
	r.Require("records_tampered_v1", 4)
	r.Require("records_tampered_v2", 12)
	r.Require("records_tampered_term2", 2)
	r.Require("mutations_bitflip-tag", 1000)
	r.Require("mutations_bitflip-body", 500)
	r.Require("mutations_bitflip-nonce", 1000)
	r.Require("mutations_truncate", 1000)
	r.Require("mutations_header-term", 50)
	r.Require("mutations_header-version", 50)
	r.Require("mutations_splice", 50)
	r.Require("mutations_forge", 30)
	r.Require("mutations_transplant-live-key", 200)
	r.Require("mutations_transplant-fresh-key", 100)
	r.Require("transplants_v2", 200)
	r.Require("rejected_with_error", 50000)
	r.Require("reads_via_barrier.Get", 10000)
	r.Require("reads_via_view.Get", 10000)
	r.Require("reads_via_barrier.Decrypt", 10000)
	r.Require("reads_via_tx.Get", 5000)
	r.Require("reads_via_rotx.Get", 5000)
	r.Require("reads_via_viewtx.Get", 5000)
}

// tamperMeta alters the keyring and root-key records and checks that unsealing / reloading refuses them.
func (e *c01Env) tamperMeta(t *testing.T, r *kit.Result, caseID string, rng *kit.Rand) {
	kpath := e.meta + KeyringPath
	orig := e.raw(kpath)
	w := map[string]any{"env": e.id, "key": kpath}
	try := func(desc string, img []byte) {
		if bytes.Equal(img, orig) {
			return
		}
		e.plant(kpath, img)
		nb := NewAESGCMBarrier(e.phys, e.ns)
		var err error
		var pan any
		func() {
			defer func() { pan = recover() }()
			err = nb.Unseal(c01Ctx, e.root)
		}()
		r.Eval(1)
		r.Count("keyring_tamper_unseals", 1)
		switch {
		case pan != nil:
			if len(img) < 4 {
				r.Note("Unseal panics on a keyring record shorter than four bytes instead of returning an error (%s; outside the wording of C01, recorded as a note)", e.id)
				r.Count("keyring_short_record_panics_noted", 1)
			} else {
				r.Violate("C01-tamper-panic", caseID, "Unseal panicked on an altered keyring record ["+desc+"]", w)
			}
		case err == nil && !nb.Sealed():
			r.Violate("C01-tamper-accepted", caseID, "a barrier unsealed from an altered keyring record ["+desc+"]", w)
		default:
			r.Count("keyring_tamper_rejected", 1)
		}
		// the live barrier must refuse to reload it as well
		func() {
			defer func() {
				if p := recover(); p != nil && len(img) >= 4 {
					r.Violate("C01-tamper-panic", caseID, "ReloadKeyring panicked on an altered keyring record ["+desc+"]", w)
				}
			}()
			if len(img) < 4 {
				return
			}
			if err := e.b.ReloadKeyring(c01Ctx); err == nil {
				r.Violate("C01-tamper-accepted", caseID, "the live barrier reloaded an altered keyring record ["+desc+"]", w)
			}
		}()
	}
	L := len(orig)
	buf := make([]byte, L)
	for k := 0; k < kit.N(300, 1500); k++ {
		copy(buf, orig)
		i := rng.Intn(L)
		buf[i] ^= 1 << rng.Intn(8)
		try(fmt.Sprintf("flip a bit of byte %d", i), buf)
	}
	for i := 0; i < c01Hdr+c01Nonce; i++ {
		for bit := 0; bit < 8; bit++ {
			copy(buf, orig)
			buf[i] ^= 1 << bit
			try(fmt.Sprintf("flip bit %d of byte %d", bit, i), buf)
		}
	}
	for n := 0; n < L; n += 1 + n/16 {
		try(fmt.Sprintf("truncate to %d bytes", n), orig[:n])
	}
	try("append a byte", append(append([]byte(nil), orig...), 0))
	// transplant the root-key record and a data record into the keyring slot
	try("root-key record in the keyring slot", e.raw(e.meta+RootKeyPath))
	e.plant(kpath, orig)
	if err := e.b.ReloadKeyring(c01Ctx); err != nil {
		t.Fatalf("verif: live barrier cannot reload the restored keyring: %v", err)
	}
	// root-key record: read through the ordinary path by ReloadRootKey
	rpath := e.meta + RootKeyPath
	rorig := e.raw(rpath)
	for k := 0; k < kit.N(100, 400); k++ {
		img := append([]byte(nil), rorig...)
		i := rng.Intn(len(img))
		img[i] ^= 1 << rng.Intn(8)
		e.plant(rpath, img)
		var err error
		var pan any
		func() {
			defer func() { pan = recover() }()
			err = e.b.ReloadRootKey(c01Ctx)
		}()
		r.Eval(1)
		r.Count("rootkey_tamper_reloads", 1)
		if pan != nil {
			r.Violate("C01-tamper-panic", caseID, "ReloadRootKey panicked on an altered root-key record", map[string]any{"env": e.id, "byte": i})
		} else if err == nil {
			r.Violate("C01-tamper-accepted", caseID, "ReloadRootKey accepted an altered root-key record", map[string]any{"env": e.id, "byte": i})
		}
	}
	e.plant(rpath, rorig)
	if err := e.b.ReloadRootKey(c01Ctx); err != nil {
		t.Fatalf("verif: live barrier cannot reload the restored root key: %v", err)
	}
}

// ---------------------------------------------------------------- legacy-initialised store re-opened by a current instance

const (
	// c01CurrentVer is the current record format of the property text (additional data = storage key).
	c01CurrentVer = 2
	// c01LegacyFormatClass: a record written by a barrier instance with default settings (the harness did not touch the
	// format seam of that instance) carries the legacy format byte.
	c01LegacyFormatClass = "C01-new-record-written-in-legacy-format"
)

var c01LegacyVariants = []string{
	"initialised-under-v1",
	"initialised-under-v1-and-rotated-under-v1",
	"initialised-under-v2-keyring-last-persisted-under-v1",
	"initialised-under-v1-root-key-rotated-under-v1",
}

// reopen seals the instance in use and opens the same store with a fresh instance with default settings.
func (e *c01Env) reopen(t *testing.T) error {
	if e.b != nil && !e.b.Sealed() {
		if err := e.b.Seal(); err != nil {
			t.Fatalf("verif: seal: %v", err)
		}
	}
	nb := NewAESGCMBarrier(e.phys, e.ns)
	switch x := nb.(type) {
	case *TransactionalAESGCMBarrier:
		e.b, e.aes = nb, x.AESGCMBarrier
	case *AESGCMBarrier:
		e.b, e.aes = nb, x
	default:
		t.Fatalf("verif: unknown barrier type %T", nb)
	}
	return nb.Unseal(c01Ctx, e.root)
}

// transplant moves rec (bytes, then the whole entry) to every target key and judges every read front door.
// allowValue: rec is a legacy v1 record (relocatable by design).
func (e *c01Env) transplant(r *kit.Result, caseID, stage string, rec *c01Rec, targets []string, allowValue bool) {
	w := rec.wit(e)
	w["stage"] = stage
	for _, tg := range targets {
		if tg == rec.Key || tg == "" || strings.HasSuffix(tg, "/") {
			continue
		}
		saved := e.raw(tg)
		e.plant(tg, rec.Stored)
		mw := map[string]any{"target": tg}
		for k, v := range w {
			mw[k] = v
		}
		desc := fmt.Sprintf("%s: transplant record from %q to %q", stage, rec.Key, tg)
		for _, rd := range e.readers(tg) {
			c01Judge(r, caseID, desc, rd(), rec.Val, allowValue, nil, mw)
		}
		c01Judge(r, caseID, desc, e.decryptAPI(tg, rec.Stored), rec.Val, allowValue, nil, mw)
		if saved != nil {
			e.plant(tg, saved)
		} else {
			e.unplant(tg)
		}
		r.Count("reopen_transplants_bytes", 1)
		e.probe.Alias(tg, rec.Key)
		desc = fmt.Sprintf("%s: backend serves the entry of %q (with its entry key) for a read of %q", stage, rec.Key, tg)
		for _, rd := range e.readers(tg) {
			c01Judge(r, caseID, desc, rd(), rec.Val, allowValue, nil, mw)
		}
		e.probe.Unalias(tg)
		r.Count("reopen_transplants_entry_level", 1)
		if allowValue {
			r.Count("reopen_transplants_of_legacy_records", 1)
		} else {
			r.Count("reopen_transplants_of_new_records", 1)
		}
	}
}

func c01LegacyReopenCase(t *testing.T, r *kit.Result, caseID string, n int, rng *kit.Rand) {
	variant := (n / len(c01Configs)) % len(c01LegacyVariants)
	vname := c01LegacyVariants[variant]
	initVer := byte(1)
	if variant == 2 {
		initVer = 0
	}
	e := c01NewEnvFormat(t, n, rng, initVer)
	e.id += " legacy-store=" + vname
	wenv := map[string]any{"env": e.id}
	idx := 0
	var legacy, fresh []*c01Rec
	// write puts one value through one front door and checks the record it left (O1).
	write := func(stage, how, key string, ver byte, kr *c01Keyring, class string) *c01Rec {
		shape, val := c01GenVal(rng, rng.Intn(14), 8<<10)
		if key == "" {
			key = c01GenKey(rng, idx)
		}
		idx++
		how, err := e.put(how, key, val)
		if err != nil {
			t.Fatalf("verif: put %s %q: %v", how, key, err)
		}
		e.model[key] = val
		rec := &c01Rec{Idx: idx, Key: key, Val: val, Shape: shape, Ver: ver, Term: e.expTerm, How: how, Stored: e.raw(key), VerClass: class}
		var others []string
		for _, o := range append(append([]*c01Rec{}, legacy...), fresh...) {
			if len(others) < 4 && o.Key != key && rng.Chance(1, 2) {
				others = append(others, o.Key)
			}
		}
		e.checkShape(r, caseID, rec, kr, others)
		r.Nontrivial(fmt.Sprintf("%d|%d|%s|%s|%d", e.cfg%len(c01Configs), variant, stage, how, ver))
		return rec
	}

	// ---- phase 1: the store as a release with the legacy record format left it (format seam = 1)
	kr := e.checkMeta(r, caseID, "legacy-initialised")
	if kr == nil {
		return
	}
	nLegacy := 6 + rng.Intn(4)
	for i := 0; i < nLegacy; i++ {
		switch {
		case variant == 1 && (i == 2 || i == 4):
			if _, err := e.b.Rotate(c01Ctx); err != nil {
				t.Fatalf("verif: rotate: %v", err)
			}
			e.expTerm++
			if i == 4 {
				if err := e.b.CreateUpgrade(c01Ctx, e.expTerm); err != nil {
					t.Fatalf("verif: create upgrade: %v", err)
				}
			}
		case variant == 2 && i == 3:
			// from here on the legacy format is current: the keyring is persisted in it
			e.aes.currentAESGCMVersionByte = 1
			if _, err := e.b.Rotate(c01Ctx); err != nil {
				t.Fatalf("verif: rotate: %v", err)
			}
			e.expTerm++
		case variant == 3 && i == 3:
			nk, _ := e.b.GenerateKey()
			if err := e.b.RotateRootKey(c01Ctx, nk); err != nil {
				t.Fatalf("verif: rotate root key: %v", err)
			}
			e.root = nk
		}
		if kr = e.checkMeta(r, caseID, "legacy-phase"); kr == nil {
			return
		}
		rec := write("legacy-phase", c01Hows[i%len(c01Hows)], "", e.aes.currentAESGCMVersionByte, kr, "")
		if rec.Ver == 1 {
			legacy = append(legacy, rec)
		} else {
			fresh = append(fresh, rec) // variant 2: written under the current format before the downgrade
		}
	}
	if err := e.b.Seal(); err != nil {
		t.Fatalf("verif: seal: %v", err)
	}
	if krec := e.raw(e.meta + KeyringPath); len(krec) < c01Overhead || krec[4] != 1 {
		r.Inconc("%s: the format seam did not leave a version-1 keyring record (%s); the legacy store cannot be built", caseID, c01Hex(krec, 8))
		return
	}
	r.Count("legacy_stores_built_keyring_record_v1", 1)
	r.Count("legacy_stores_"+vname, 1)

	// ---- phase 2: instances with default settings only; the harness does not touch the format seam any more
	if err := e.reopen(t); err != nil {
		r.Violate("C01-keyring-record", caseID, "an instance with default settings cannot unseal the legacy-initialised store: "+err.Error(), wenv)
		return
	}
	r.Count("legacy_stores_reopened_by_default_instance", 1)
	persisted := false // has an instance with default settings persisted the keyring since the re-open?
	round := func(stage string) bool {
		if kr = e.checkMeta(r, caseID, stage); kr == nil {
			return false
		}
		r.Count("reopen_stages", 1)
		r.Count("reopen_stage_"+stage, 1)
		ws := map[string]any{"env": e.id, "stage": stage}
		krec, rrec := e.raw(e.meta+KeyringPath), e.raw(e.meta+RootKeyPath)
		if persisted {
			// keyring + root-key records were written by a default instance: current format, bound to their paths
			for _, m := range []struct {
				name string
				rec  []byte
			}{{"keyring", krec}, {"root-key", rrec}} {
				r.Count("reopen_meta_records_checked_after_persist", 1)
				if len(m.rec) >= c01Overhead && m.rec[4] != c01CurrentVer {
					ws["stored"] = c01Hex(m.rec, 24)
					r.Violate(c01LegacyFormatClass, caseID, fmt.Sprintf("%s: the %s record persisted by an instance with default settings carries format version %d, the current format is %d", stage, m.name, m.rec[4], c01CurrentVer), ws)
				}
			}
		} else if krec[4] == 1 {
			r.Count("reopen_rounds_with_keyring_record_still_v1_at_rest", 1)
		}
		// records of the legacy phase stay readable
		for _, o := range legacy {
			if !bytes.Equal(e.raw(o.Key), o.Stored) {
				continue // overwritten since
			}
			for _, rd := range e.readers(o.Key) {
				x := rd()
				r.Eval(1)
				r.Count("reopen_legacy_record_reads", 1)
				if x.Panic != nil || x.Err != nil || !x.Found || !bytes.Equal(x.Val, o.Val) {
					ww := o.wit(e)
					ww["stage"], ww["path"], ww["outcome"] = stage, x.Path, c01Outcome(x)
					r.Violate("C01-roundtrip", caseID, stage+": a record written under the legacy format does not read back after the store was re-opened", ww)
				}
			}
		}
		// new records through every write front door, plus an overwrite of a legacy record
		var now []*c01Rec
		for _, how := range c01Hows {
			r.Eval(1)
			now = append(now, write(stage, how, "", c01CurrentVer, kr, c01LegacyFormatClass))
		}
		if len(legacy) > 0 {
			o := kit.Pick(rng, legacy)
			now = append(now, write(stage, kit.Pick(rng, c01Hows), o.Key, c01CurrentVer, kr, c01LegacyFormatClass))
			r.Count("reopen_legacy_records_overwritten", 1)
		}
		r.Count("reopen_new_records", len(now))
		if e.expTerm > 1 {
			r.Count("reopen_new_records_after_rotation", len(now))
		}
		fresh = append(fresh, now...)
		// every new record: moved to other new records, to legacy records, to fresh look-alike keys; a version
		// byte rewritten to the legacy one
		for _, rec := range now {
			var targets []string
			for k := 0; k < 3; k++ {
				targets = append(targets, kit.Pick(rng, fresh).Key)
			}
			for k := 0; k < 2 && len(legacy) > 0; k++ {
				targets = append(targets, kit.Pick(rng, legacy).Key)
			}
			p1, rest1 := c01Split(rec.Key, 1)
			for _, fk := range []string{rec.Key + "x", rec.Key + "/x", "z" + rec.Key, rest1, p1 + p1 + rest1, e.meta + rec.Key} {
				if _, live := e.model[fk]; !live {
					targets = append(targets, fk)
				}
			}
			e.transplant(r, caseID, stage, rec, targets, false)
			if len(rec.Stored) >= c01Overhead {
				img := append([]byte(nil), rec.Stored...)
				img[4] = 1
				if !bytes.Equal(img, rec.Stored) {
					e.plant(rec.Key, img)
					mw := rec.wit(e)
					mw["stage"] = stage
					for _, rd := range e.readers(rec.Key) {
						c01Judge(r, caseID, stage+": rewrite version 2 -> 1", rd(), rec.Val, false, nil, mw)
					}
					e.plant(rec.Key, rec.Stored)
					r.Count("reopen_version_rewrites", 1)
				}
			}
		}
		// legacy records moved onto new records' keys: authenticated but relocatable (value or error)
		for k := 0; k < 2 && len(legacy) > 0; k++ {
			o := kit.Pick(rng, legacy)
			if bytes.Equal(e.raw(o.Key), o.Stored) {
				e.transplant(r, caseID, stage, o, []string{kit.Pick(rng, now).Key, o.Key + "x"}, true)
			}
		}
		return r.NViolations() <= 40
	}

	if !round("reopened") {
		return
	}
	reseal := func() bool {
		if err := e.b.Seal(); err != nil {
			t.Fatalf("verif: seal: %v", err)
		}
		if err := e.b.Unseal(c01Ctx, e.root); err != nil {
			r.Violate("C01-keyring-record", caseID, "barrier does not unseal from its persisted keyring with the current root key: "+err.Error(), wenv)
			return false
		}
		return true
	}
	freshInstance := func() bool {
		if err := e.reopen(t); err != nil {
			r.Violate("C01-keyring-record", caseID, "a further instance with default settings cannot unseal the store: "+err.Error(), wenv)
			return false
		}
		return true
	}
	if rng.Chance(1, 2) {
		if !reseal() || !round("resealed-before-any-keyring-persist") {
			return
		}
	}
	if rng.Chance(1, 2) {
		if !freshInstance() || !round("second-fresh-instance-before-any-keyring-persist") {
			return
		}
	}
	stages := []string{"rotated", "root-key-rotated", "resealed", "fresh-instance", "keyring-reloaded", "rotated-with-upgrade"}
	rng.Shuffle(len(stages), func(a, b int) { stages[a], stages[b] = stages[b], stages[a] })
	for _, stage := range stages {
		switch stage {
		case "rotated", "rotated-with-upgrade":
			nt, err := e.b.Rotate(c01Ctx)
			if err != nil {
				t.Fatalf("verif: rotate: %v", err)
			}
			e.expTerm++
			if nt != e.expTerm {
				r.Violate("C01-shape-term", caseID, fmt.Sprintf("Rotate returned term %d, expected %d", nt, e.expTerm), wenv)
			}
			persisted = true
			if stage == "rotated-with-upgrade" {
				if err := e.b.CreateUpgrade(c01Ctx, e.expTerm); err != nil {
					t.Fatalf("verif: create upgrade: %v", err)
				}
				ukey := fmt.Sprintf("%s%d", e.meta+KeyringUpgradePrefix, e.expTerm-1)
				urec := e.raw(ukey)
				r.Count("reopen_upgrade_records_checked", 1)
				switch {
				case len(urec) < c01Overhead:
					r.Violate("C01-upgrade-record", caseID, "CreateUpgrade left no well-formed record under "+ukey, wenv)
				case urec[4] != c01CurrentVer:
					r.Violate(c01LegacyFormatClass, caseID, fmt.Sprintf("%s: the upgrade record written by an instance with default settings carries format version %d, the current format is %d", stage, urec[4], c01CurrentVer),
						map[string]any{"env": e.id, "key": ukey, "stored": c01Hex(urec, 24)})
				}
			}
		case "root-key-rotated":
			nk, _ := e.b.GenerateKey()
			if err := e.b.RotateRootKey(c01Ctx, nk); err != nil {
				t.Fatalf("verif: rotate root key: %v", err)
			}
			e.root = nk
			persisted = true
		case "resealed":
			if !reseal() {
				return
			}
		case "fresh-instance":
			if !freshInstance() {
				return
			}
		case "keyring-reloaded":
			if err := e.b.ReloadRootKey(c01Ctx); err != nil {
				r.Violate("C01-rootkey-record", caseID, "the live barrier cannot reload the root-key record: "+err.Error(), wenv)
				return
			}
			if err := e.b.ReloadKeyring(c01Ctx); err != nil {
				r.Violate("C01-keyring-record", caseID, "the live barrier cannot reload the keyring record: "+err.Error(), wenv)
				return
			}
		}
		if !round(stage) {
			return
		}
	}
	if kr = e.checkMeta(r, caseID, "end"); kr != nil {
		e.audit(r, caseID, kr)
	}
	if len(r.Samples) < 4 {
		r.Sample(map[string]any{"case": caseID, "env": e.id, "legacy_records": len(legacy), "records_written_after_reopen": len(fresh), "final_term": e.expTerm, "stages": stages})
	}
	r.Count("legacy_reopen_histories", 1)
}

func TestVerif_C01_LegacyStoreReopen(t *testing.T) {
	seed := kit.Seed(1)
	r := kit.NewResult(t, "c01-legacy-reopen", seed, "a store initialised and populated while the legacy record format (version 1, no additional data) was current (in-package format seam; 4 ways to get there: initialised under v1 / + rotated under v1 / initialised under v2 but keyring last persisted under v1 / + root key rotated under v1), on a transactional / plain store, root / namespace barrier, with / without seal-key record, is sealed and re-opened by a fresh barrier instance with default settings whose format seam the harness never touches. Directly after the re-open, after seal+unseal and a second fresh instance before any keyring persist, and then after Rotate, RotateRootKey, seal+unseal, a further fresh instance, ReloadKeyring/ReloadRootKey and Rotate+CreateUpgrade in seeded order: one value through each of the 7 write front doors plus an overwrite of a legacy record; every record must carry format version 2 and the active term and open (crypto/aes + cipher.NewGCM, keyring recovered from the store) only with its storage key as additional data; keyring, root-key and upgrade records persisted by the default instance must be version 2; every such record moved (bytes and whole entry) to other new records, legacy records and fresh look-alike keys, or re-headed as version 1, must fail to read through barrier / view / sub-view / transactions / Decrypt. Legacy records must keep reading back; moved legacy records may return their value (relocatable by design). distinct = (config, legacy variant, stage, write front door, version)")
	defer r.Write(t)
	nEnv := kit.N(16, 192)
	mine := 0
	for n := 0; n < nEnv; n++ {
		if !c01Mine(70000 + n) {
			continue
		}
		caseID := fmt.Sprintf("legacy-reopen:%d", n)
		if !kit.WantCase(caseID) {
			continue
		}
		mine++
		c01LegacyReopenCase(t, r, caseID, n, kit.NewRand(seed, uint64(70000+n)))
		if r.NViolations() > 40 {
			return
		}
	}
	m := int64(mine)
	r.Require("legacy_stores_built_keyring_record_v1", m)
	r.Require("legacy_stores_reopened_by_default_instance", m)
	r.Require("legacy_reopen_histories", m)
	r.Require("reopen_stage_reopened", m)
	r.Require("reopen_rounds_with_keyring_record_still_v1_at_rest", m)
	r.Require("reopen_stage_rotated", m)
	r.Require("reopen_stage_resealed", m)
	r.Require("reopen_stage_fresh-instance", m)
	r.Require("reopen_stage_keyring-reloaded", m)
	r.Require("reopen_stage_root-key-rotated", m)
	r.Require("reopen_new_records", 50*m)
	r.Require("reopen_new_records_after_rotation", 8*m)
	r.Require("reopen_meta_records_checked_after_persist", 4*m)
	r.Require("reopen_upgrade_records_checked", m)
	r.Require("reopen_transplants_of_new_records", 300*m)
	r.Require("reopen_transplants_of_legacy_records", 10*m)
	r.Require("reopen_legacy_record_reads", 50*m)
	r.Require("reopen_legacy_records_overwritten", 5*m)
	r.Require("reopen_version_rewrites", 40*m)
	if nEnv >= 16 && mine >= 8 {
		for _, how := range c01Hows {
			r.Require("records_how_"+how, 4)
		}
	}
}
