//go:build verif

package vault

// C01 (core level, O3 + O1 on a running server): a full core on a probe store runs an API
// workload in which every *value* position carries a unique canary; afterwards every physical
// key and value ever written (mutation journal) and the final store are searched for every
// canary (raw, hex, base64 at all three alignments) and for every secret the server handed
// out or holds (tokens, accessors, key shares, exported transit keys, PKI private keys, the
// barrier's own root and term keys). Every physical record must open, with crypto/aes +
// cipher.NewGCM used directly, as format-2 ciphertext of the keyring that owns its key prefix,
// bound to its storage key and sealed under the term that was active when it was written -
// or be one of the pinned bootstrap records, identified by key pattern AND writer function.

import (
	"bytes"
	"context"
	"crypto/aes"
	"crypto/cipher"
	"crypto/sha256"
	"encoding/base64"
	"encoding/binary"
	"encoding/hex"
	"encoding/json"
	"encoding/pem"
	"fmt"
	"os"
	"path/filepath"
	"regexp"
	"sort"
	"strings"
	"testing"
	"time"

	kit "github.com/openbao/openbao/sdk/v2/helper/verifkit"
	shamirpkg "github.com/openbao/openbao/sdk/v2/helper/shamir"
	"github.com/openbao/openbao/sdk/v2/logical"
	"github.com/openbao/openbao/sdk/v2/physical"
	"github.com/openbao/openbao/v2/internal/builtin/credential/approle"
	"github.com/openbao/openbao/v2/internal/builtin/credential/userpass"
	"github.com/openbao/openbao/v2/internal/builtin/logical/kv"
	"github.com/openbao/openbao/v2/internal/builtin/logical/pki"
	"github.com/openbao/openbao/v2/internal/builtin/logical/transit"
	"github.com/openbao/openbao/v2/internal/helper/namespace"
	"github.com/openbao/openbao/v2/internal/helper/pgpkeys"
	"github.com/openbao/openbao/v2/internal/vault/barrier"
	vaultseal "github.com/openbao/openbao/v2/internal/vault/seal"
)

// ---------------------------------------------------------------- independent record opener

const (
	c01Hdr      = 5
	c01Nonce    = 12
	c01Tag      = 16
	c01Overhead = c01Hdr + c01Nonce + c01Tag
)

func c01OpenAAD(key, rec, aad []byte) ([]byte, error) {
	if len(rec) < c01Overhead {
		return nil, fmt.Errorf("record of %d bytes is shorter than header+nonce+tag", len(rec))
	}
	blk, err := aes.NewCipher(key)
	if err != nil {
		return nil, err
	}
	g, err := cipher.NewGCM(blk)
	if err != nil {
		return nil, err
	}
	return g.Open(nil, rec[c01Hdr:c01Hdr+c01Nonce], rec[c01Hdr+c01Nonce:], aad)
}

// c01Open opens a record according to its version byte (1: no additional data, 2: storage key).
func c01Open(key, rec []byte, storageKey string) ([]byte, error) {
	if len(rec) < c01Overhead {
		return nil, fmt.Errorf("record of %d bytes is shorter than header+nonce+tag", len(rec))
	}
	switch rec[4] {
	case 1:
		return c01OpenAAD(key, rec, nil)
	case 2:
		return c01OpenAAD(key, rec, []byte(storageKey))
	}
	return nil, fmt.Errorf("unknown version %d", rec[4])
}

// ---------------------------------------------------------------- canaries

type c01Pattern struct {
	canary int
	form   string
	pat    []byte
}

type c01CanaryInfo struct {
	ID      string `json:"id"`
	Where   string `json:"where"`
	Dynamic bool   `json:"dynamic,omitempty"`
}

type c01Canaries struct {
	rng   *kit.Rand
	infos []c01CanaryInfo
	pats  map[[4]byte][]c01Pattern
	seen  map[string]bool
	npat  int
}

func c01NewCanaries(rng *kit.Rand) *c01Canaries {
	return &c01Canaries{rng: rng, pats: map[[4]byte][]c01Pattern{}, seen: map[string]bool{}}
}

func (c *c01Canaries) addPat(idx int, form string, pat []byte) {
	if len(pat) < 10 {
		return
	}
	var k [4]byte
	copy(k[:], pat)
	c.pats[k] = append(c.pats[k], c01Pattern{idx, form, append([]byte(nil), pat...)})
	c.npat++
}

// register adds all encodings of raw under which it could surface in a plaintext side record.
func (c *c01Canaries) register(where string, raw []byte, dynamic bool, text bool) {
	if len(raw) < 10 || c.seen[string(raw)] {
		return
	}
	c.seen[string(raw)] = true
	idx := len(c.infos)
	id := string(raw)
	if !text {
		id = "bin:" + hex.EncodeToString(raw[:6]) + "..."
	}
	c.infos = append(c.infos, c01CanaryInfo{ID: id, Where: where, Dynamic: dynamic})
	c.addPat(idx, "raw", raw)
	c.addPat(idx, "hex", []byte(hex.EncodeToString(raw)))
	c.addPat(idx, "HEX", []byte(strings.ToUpper(hex.EncodeToString(raw))))
	for o := 0; o < 3; o++ {
		s := (3 - o) % 3
		if s >= len(raw) {
			continue
		}
		seg := raw[s:]
		seg = seg[:len(seg)/3*3]
		c.addPat(idx, fmt.Sprintf("base64@%d", o), []byte(base64.RawStdEncoding.EncodeToString(seg)))
		u := base64.RawURLEncoding.EncodeToString(seg)
		if u != base64.RawStdEncoding.EncodeToString(seg) {
			c.addPat(idx, fmt.Sprintf("base64url@%d", o), []byte(u))
		}
	}
}

// Text returns a fresh canary for a value position.
func (c *c01Canaries) Text(where string) string {
	s := c.rng.Canary()
	c.register(where, []byte(s), false, true)
	return s
}

// Secret registers a secret handed out (or held) by the server.
func (c *c01Canaries) Secret(where string, raw []byte) {
	c.register(where, raw, true, false)
}

func (c *c01Canaries) SecretText(where, s string) {
	c.register(where, []byte(s), true, true)
}

type c01Hit struct {
	Canary c01CanaryInfo `json:"canary"`
	Form   string        `json:"form"`
	Offset int           `json:"offset"`
}

func (c *c01Canaries) scan(data []byte) []c01Hit {
	var hits []c01Hit
	if len(data) < 10 {
		return nil
	}
	var k [4]byte
	for i := 0; i+10 <= len(data); i++ {
		copy(k[:], data[i:i+4])
		ps, ok := c.pats[k]
		if !ok {
			continue
		}
		for _, p := range ps {
			if bytes.HasPrefix(data[i:], p.pat) {
				hits = append(hits, c01Hit{c.infos[p.canary], p.form, i})
			}
		}
	}
	return hits
}

// ---------------------------------------------------------------- keyrings

type c01KR struct {
	Name   string
	Prefix string // physical key prefix owned by this keyring ("" = root)
	Roots  [][]byte
	Keys   map[uint32][]byte
}

func (k *c01KR) absorb(kr *barrier.Keyring) {
	if kr == nil {
		return
	}
	for t := uint32(1); t <= kr.ActiveTerm(); t++ {
		if tk := kr.TermKey(t); tk != nil {
			if _, ok := k.Keys[t]; !ok {
				k.Keys[t] = append([]byte(nil), tk.Value...)
			}
		}
	}
	rk := kr.RootKey()
	for _, r := range k.Roots {
		if bytes.Equal(r, rk) {
			return
		}
	}
	k.Roots = append(k.Roots, append([]byte(nil), rk...))
}

type c01Sample struct {
	Seq   uint64
	Terms map[string]uint32
}

// ---------------------------------------------------------------- pinned bypass set

// The fixed set of records allowed to reach the physical backend outside the encrypted layer:
// key pattern (after an optional namespaces/<uuid>/ prefix) and the functions allowed to write it.
type c01Bypass struct {
	Name    string
	Pattern *regexp.Regexp
	Writers []string
	Known   string // non-empty: this is not part of the property's fixed set but a recorded known finding
}

const c01NSPrefixRe = `^(namespaces/[0-9a-f-]{36}/)?`

var c01BypassSet = []c01Bypass{
	{Name: "seal-config", Pattern: regexp.MustCompile(`^core/seal-config$`), Writers: []string{"vault.(*directStorageAccess).Put"}},
	{Name: "recovery-config", Pattern: regexp.MustCompile(`^core/recovery-config$`), Writers: []string{"vault.(*directStorageAccess).Put"}},
	{Name: "stored-keys", Pattern: regexp.MustCompile(c01NSPrefixRe + `core/hsm/barrier-unseal-keys$`), Writers: []string{"vault.writeStoredKeys"}},
	{Name: "recovery-key", Pattern: regexp.MustCompile(`^core/recovery-key$`), Writers: []string{"vault.(*autoSeal).SetRecoveryKey"}},
	{Name: "unseal-keys-backup", Pattern: regexp.MustCompile(`^core/unseal-keys-backup$`), Writers: []string{"vault.(*Core).BarrierRekeyUpdate"}},
	{Name: "recovery-keys-backup", Pattern: regexp.MustCompile(`^core/recovery-keys-backup$`), Writers: []string{"vault.(*Core).RecoveryRekeyUpdate"}},
	{Name: "raft-bootstrap-lock", Pattern: regexp.MustCompile(`^core/lock$`), Writers: []string{"vault.(*SystemBackend).handleStorageRaftSnapshotWrite", "vault.(*Core)."}},
	{Name: "ui-headers-plaintext", Pattern: regexp.MustCompile(`^sys/ui(/.*|config_plaintext)$`), Writers: []string{"vault.(*UIConfig).save"}, Known: "KF-C01-UI"},
}

const c01ClassUI = "C01-KF-UI-plaintext-header-copy-under-sys-ui"

// c01IsUIKey: the plaintext copy of the UI header configuration. The core builds this view with the prefix
// "sys/ui" (no trailing slash), so the record is "sys/uiconfig_plaintext" on the pinned tree; "sys/ui/..." is
// accepted too so that adding the missing slash upstream does not turn the known finding into a new one.
func c01IsUIKey(k string) bool {
	return k == "sys/uiconfig_plaintext" || strings.HasPrefix(k, "sys/ui/")
}

func c01ShortFunc(f string) string {
	if i := strings.LastIndex(f, "/"); i >= 0 {
		return f[i+1:]
	}
	return f
}

// ---------------------------------------------------------------- workload driver

type c01W struct {
	t       *testing.T
	v       *vCore
	r       *kit.Result
	rng     *kit.Rand
	cz      *c01Canaries
	caseID  string
	samples []c01Sample
	root    *c01KR
	nsKR    map[string]*c01KR // ns path -> keyring
	nsUUID  map[string]string
	failed  []string
	tokens  []string
	shares  map[string][]string // sealed ns path -> hex shares
}

const c01NoToken = "\x00none"

func (w *c01W) sample() {
	terms := map[string]uint32{}
	if kr, err := w.v.Core.barrier.Keyring(); err == nil {
		w.root.absorb(kr)
		terms[""] = kr.ActiveTerm()
	}
	for p, k := range w.nsKR {
		if b := w.v.Core.sealManager.NamespaceBarrier(p); b != nil {
			if kr, err := b.Keyring(); err == nil {
				k.absorb(kr)
				terms[k.Prefix] = kr.ActiveTerm()
			}
		}
	}
	w.samples = append(w.samples, c01Sample{Seq: w.v.Probe.NextSeq(), Terms: terms})
}

// do runs one request; a failure is logged and counted but never decides a verdict.
func (w *c01W) do(family string, rq vReq) *logical.Response {
	if rq.Token == "" {
		rq.Token = w.v.Root
	} else if rq.Token == c01NoToken {
		rq.Token = ""
	}
	rq.Tag = family
	resp, err := w.v.Do(rq)
	w.r.Eval(1)
	w.r.Count("requests", 1)
	if vOK(resp, err) {
		w.r.Count("requests_ok", 1)
		w.r.Count("family_ok:"+family, 1)
	} else {
		w.r.Count("requests_failed", 1)
		msg := fmt.Sprintf("%s %s %s ns=%q: %s", family, rq.Op, rq.Path, rq.NS, vErrStr(resp, err))
		w.failed = append(w.failed, msg)
		w.t.Logf("verif: c01 workload request failed: %s", msg)
		resp = nil
	}
	w.sample()
	return resp
}

func (w *c01W) upd(family, path string, data map[string]any) *logical.Response {
	return w.do(family, vReq{Op: logical.UpdateOperation, Path: path, Data: data})
}

func (w *c01W) updNS(family, ns, path string, data map[string]any) *logical.Response {
	return w.do(family, vReq{Op: logical.UpdateOperation, Path: path, Data: data, NS: ns})
}

func (w *c01W) read(family, path string) *logical.Response {
	return w.do(family, vReq{Op: logical.ReadOperation, Path: path})
}

func (w *c01W) c(where string) string { return w.cz.Text(w.caseID + ":" + where) }

// val builds a JSON-able value of a random shape that carries fresh canaries.
func (w *c01W) val(where string) map[string]any {
	m := map[string]any{"password": w.c(where + ".password")}
	switch w.rng.Intn(6) {
	case 0:
		m["nested"] = map[string]any{"list": []any{w.c(where + ".nested.list0"), 42, w.c(where + ".nested.list1")}, "deep": map[string]any{"k": w.c(where + ".nested.deep")}}
	case 1:
		m["long"] = strings.Repeat("lorem ipsum ", 200+w.rng.Intn(400)) + w.c(where+".long-tail")
	case 2:
		m["unicode"] = "päß→" + w.c(where+".unicode") + "←鍵"
	case 3:
		m["blob_b64"] = base64.StdEncoding.EncodeToString(w.rng.Bytes(64)) // not a canary: already an encoding
		m["x"] = w.c(where + ".x")
	case 4:
		m["short"] = "a"
	}
	return m
}

func c01Str(resp *logical.Response, key string) string {
	if resp == nil || resp.Data == nil {
		return ""
	}
	s, _ := resp.Data[key].(string)
	return s
}

func (w *c01W) token(family string, data map[string]any, ns string) string {
	resp := w.do(family, vReq{Op: logical.UpdateOperation, Path: "auth/token/create", Data: data, NS: ns})
	if resp == nil || resp.Auth == nil {
		return ""
	}
	w.cz.SecretText(w.caseID+":token.id", resp.Auth.ClientToken)
	w.cz.SecretText(w.caseID+":token.accessor", resp.Auth.Accessor)
	w.tokens = append(w.tokens, resp.Auth.ClientToken)
	return resp.Auth.ClientToken
}

func (w *c01W) quiet() { w.v.WaitQuiet(60*time.Millisecond, 3*time.Second); w.sample() }

func (w *c01W) run(shamir bool, generic int) {
	v := w.v
	w.cz.SecretText(w.caseID+":root-token", v.Root)
	for i, k := range v.Keys {
		w.cz.Secret(fmt.Sprintf("%s:unseal-share-%d", w.caseID, i), k)
	}
	w.sample()

	// ---- mounts and auth methods (descriptions and tuning values are value positions)
	w.upd("mount", "sys/mounts/c01kv1", map[string]any{"type": "kv", "description": w.c("kv1.description"), "options": map[string]any{"leased_passthrough": "true"}})
	w.upd("mount", "sys/mounts/c01kv2", map[string]any{"type": "kv-v2", "description": w.c("kv2.description")})
	w.upd("mount", "sys/mounts/c01rec", map[string]any{"type": "verifrec", "description": w.c("rec.description")})
	w.upd("mount", "sys/mounts/c01transit", map[string]any{"type": "transit", "description": w.c("transit.description")})
	w.upd("mount", "sys/mounts/c01pki", map[string]any{"type": "pki", "description": w.c("pki.description"), "config": map[string]any{"max_lease_ttl": "87600h"}})
	w.upd("auth-mount", "sys/auth/c01up", map[string]any{"type": "userpass", "description": w.c("userpass.description")})
	w.upd("auth-mount", "sys/auth/c01ar", map[string]any{"type": "approle", "description": w.c("approle.description")})
	w.upd("auth-mount", "sys/auth/c01recauth", map[string]any{"type": "verifrec", "description": w.c("recauth.description")})
	w.quiet() // kv-v2 upgrade runs in the background
	w.upd("tune", "sys/mounts/c01kv1/tune", map[string]any{"description": w.c("kv1.tune.description"), "default_lease_ttl": "2h",
		"audit_non_hmac_request_keys": []string{w.c("kv1.tune.non_hmac_req")}, "audit_non_hmac_response_keys": []string{w.c("kv1.tune.non_hmac_resp")},
		"passthrough_request_headers": []string{"X-" + w.c("kv1.tune.passthrough")}, "allowed_response_headers": []string{"X-" + w.c("kv1.tune.allowed_resp")}})
	w.upd("tune", "sys/auth/c01up/tune", map[string]any{"description": w.c("userpass.tune.description"), "listing_visibility": "unauth",
		"audit_non_hmac_request_keys": []string{w.c("userpass.tune.non_hmac_req")}})
	// (audit devices cannot be created through the API in this tree: declarative only)

	// ---- policies
	w.upd("policy", "sys/policies/acl/c01pol", map[string]any{"policy": fmt.Sprintf("# %s\npath \"c01kv1/%s/*\" { capabilities = [\"read\"] }\npath \"c01kv1/*\" { capabilities = [\"create\",\"read\",\"update\",\"list\"] }\npath \"cubbyhole/*\" { capabilities = [\"create\",\"read\",\"update\",\"delete\",\"list\"] }\npath \"auth/token/create\" { capabilities = [\"create\",\"update\"] }\n", w.c("policy.comment"), w.c("policy.path"))})
	w.upd("policy", "sys/policy/c01legacy", map[string]any{"policy": fmt.Sprintf("path \"secret/%s\" { capabilities = [\"deny\"] }", w.c("policy.legacy.path"))})
	w.upd("policy", "sys/policies/password/c01pw", map[string]any{"policy": fmt.Sprintf("length = 24\nrule \"charset\" {\n  charset = \"%s\"\n  min-chars = 1\n}\n", w.c("pwpolicy.charset"))})

	// ---- kv v1 (leased), kv v2
	w.upd("kv1", "c01kv1/app/db", map[string]any{"password": w.c("kv1.password"), "nested": map[string]any{"a": []any{w.c("kv1.nested0"), w.c("kv1.nested1")}}, "ttl": "1h"})
	var leaseID string
	if resp := w.read("kv1", "c01kv1/app/db"); resp != nil && resp.Secret != nil {
		leaseID = resp.Secret.LeaseID
	}
	w.do("kv1", vReq{Op: logical.ListOperation, Path: "c01kv1/app/"})
	w.upd("kv2", "c01kv2/config", map[string]any{"max_versions": 7})
	for i := 0; i < 3; i++ {
		w.upd("kv2", "c01kv2/data/app/cfg", map[string]any{"data": map[string]any{"api_key": w.c(fmt.Sprintf("kv2.data.v%d", i)), "n": i}})
	}
	w.upd("kv2", "c01kv2/metadata/app/cfg", map[string]any{"custom_metadata": map[string]any{"owner": w.c("kv2.custom_metadata")}, "max_versions": 5})
	w.read("kv2", "c01kv2/data/app/cfg")
	w.upd("kv2", "c01kv2/delete/app/cfg", map[string]any{"versions": []int{1}})
	w.upd("kv2", "c01kv2/undelete/app/cfg", map[string]any{"versions": []int{1}})
	w.upd("kv2", "c01kv2/destroy/app/cfg", map[string]any{"versions": []int{2}})
	w.upd("rec", "c01rec/data/item", map[string]any{"value": w.c("rec.data.value")})
	if resp := w.upd("rec", "c01rec/lease/l1", map[string]any{"canary": w.c("rec.lease.value"), "ttl": "30m"}); resp != nil && resp.Secret != nil {
		// (renewing a lease of the leased kv-v1 passthrough panics inside the server - "field path not in the
		// schema" - which is outside C01; only the recording backend's lease is renewed)
		w.upd("lease", "sys/leases/renew", map[string]any{"lease_id": resp.Secret.LeaseID, "increment": 600})
	}
	if leaseID != "" {
		w.upd("lease", "sys/leases/lookup", map[string]any{"lease_id": leaseID})
	}

	// ---- tokens
	w.upd("token", "auth/token/roles/c01role", map[string]any{"allowed_policies": []string{"c01pol", "default"}, "path_suffix": "c01suffix", "token_explicit_max_ttl": "4h"})
	tok := w.token("token", map[string]any{"policies": []string{"c01pol"}, "meta": map[string]any{"team": w.c("token.meta")}, "display_name": w.c("token.display_name"), "ttl": "1h"}, "")
	w.do("token", vReq{Op: logical.UpdateOperation, Path: "auth/token/create/c01role", Data: map[string]any{"policies": []string{"c01pol"}, "meta": map[string]any{"k": w.c("token.role.meta")}}})
	w.do("token", vReq{Op: logical.UpdateOperation, Path: "auth/token/create-orphan", Data: map[string]any{"policies": []string{"default"}, "meta": map[string]any{"k": w.c("token.orphan.meta")}, "num_uses": 5}})
	w.token("token", map[string]any{"type": "batch", "policies": []string{"default"}, "meta": map[string]any{"k": w.c("token.batch.meta")}, "ttl": "10m"}, "")
	if tok != "" {
		child := ""
		if resp := w.do("token", vReq{Op: logical.UpdateOperation, Path: "auth/token/create", Token: tok, Data: map[string]any{"policies": []string{"c01pol"}, "meta": map[string]any{"k": w.c("token.child.meta")}}}); resp != nil && resp.Auth != nil {
			child = resp.Auth.ClientToken
			w.cz.SecretText(w.caseID+":token.child.id", child)
		}
		w.do("token", vReq{Op: logical.UpdateOperation, Path: "auth/token/renew-self", Token: tok, Data: map[string]any{"increment": "30m"}})
		w.do("token", vReq{Op: logical.ReadOperation, Path: "auth/token/lookup-self", Token: tok})
		// cubbyhole of that token
		w.do("cubbyhole", vReq{Op: logical.UpdateOperation, Path: "cubbyhole/my/secret", Token: tok, Data: w.val("cubbyhole")})
		w.do("cubbyhole", vReq{Op: logical.ReadOperation, Path: "cubbyhole/my/secret", Token: tok})
		// a user-driven kv write and a leased read
		w.do("kv1", vReq{Op: logical.UpdateOperation, Path: "c01kv1/user/item", Token: tok, Data: map[string]any{"v": w.c("kv1.user.value"), "ttl": "20m"}})
		w.do("kv1", vReq{Op: logical.ReadOperation, Path: "c01kv1/user/item", Token: tok})
		if child != "" {
			w.upd("token", "auth/token/revoke", map[string]any{"token": child})
		}
	}

	// ---- wrapping
	if resp := w.do("wrapping", vReq{Op: logical.UpdateOperation, Path: "sys/wrapping/wrap", Data: map[string]any{"payload": w.c("wrap.payload")}, WrapTTL: 10 * time.Minute}); resp != nil && resp.WrapInfo != nil {
		wt := resp.WrapInfo.Token
		w.cz.SecretText(w.caseID+":wrap.token", wt)
		w.upd("wrapping", "sys/wrapping/lookup", map[string]any{"token": wt})
		if r2 := w.upd("wrapping", "sys/wrapping/rewrap", map[string]any{"token": wt}); r2 != nil && r2.WrapInfo != nil {
			wt = r2.WrapInfo.Token
			w.cz.SecretText(w.caseID+":rewrap.token", wt)
		}
		w.upd("wrapping", "sys/wrapping/unwrap", map[string]any{"token": wt})
	}
	if resp := w.do("wrapping", vReq{Op: logical.ReadOperation, Path: "c01kv1/app/db", WrapTTL: 5 * time.Minute}); resp != nil && resp.WrapInfo != nil {
		w.cz.SecretText(w.caseID+":wrap.kvread.token", resp.WrapInfo.Token)
	}

	// ---- userpass / approle / recording auth
	alicePw := w.c("userpass.password")
	w.upd("userpass", "auth/c01up/users/alice", map[string]any{"password": alicePw, "token_policies": []string{"c01pol"}})
	pw2 := w.c("userpass.password2")
	w.upd("userpass", "auth/c01up/users/bob", map[string]any{"password": pw2, "token_ttl": "1h"})
	if resp := w.do("userpass", vReq{Op: logical.UpdateOperation, Path: "auth/c01up/login/bob", Token: c01NoToken, Data: map[string]any{"password": pw2}}); resp != nil && resp.Auth != nil {
		w.cz.SecretText(w.caseID+":userpass.login.token", resp.Auth.ClientToken)
	}
	// wrong password (value position in a failing request)
	_, _ = v.Do(vReq{Op: logical.UpdateOperation, Path: "auth/c01up/login/bob", Data: map[string]any{"password": w.c("userpass.wrong-password")}})
	w.upd("approle", "auth/c01ar/role/r1", map[string]any{"token_policies": []string{"c01pol"}, "secret_id_ttl": "1h", "token_ttl": "30m"})
	roleID := c01Str(w.read("approle", "auth/c01ar/role/r1/role-id"), "role_id")
	customSID := w.c("approle.custom_secret_id")
	mdJSON, _ := json.Marshal(map[string]string{"owner": w.c("approle.secret_id.metadata")})
	w.upd("approle", "auth/c01ar/role/r1/custom-secret-id", map[string]any{"secret_id": customSID, "metadata": string(mdJSON)})
	if resp := w.upd("approle", "auth/c01ar/role/r1/secret-id", map[string]any{"metadata": string(mdJSON)}); resp != nil {
		w.cz.SecretText(w.caseID+":approle.secret_id", c01Str(resp, "secret_id"))
		w.cz.SecretText(w.caseID+":approle.secret_id_accessor", c01Str(resp, "secret_id_accessor"))
	}
	if roleID != "" {
		if resp := w.do("approle", vReq{Op: logical.UpdateOperation, Path: "auth/c01ar/login", Token: c01NoToken, Data: map[string]any{"role_id": roleID, "secret_id": customSID}}); resp != nil && resp.Auth != nil {
			w.cz.SecretText(w.caseID+":approle.login.token", resp.Auth.ClientToken)
		}
	}
	if resp := w.do("recauth", vReq{Op: logical.UpdateOperation, Path: "auth/c01recauth/login/u1", Token: c01NoToken, Data: map[string]any{"policies": []string{"default"}, "ttl": "1h",
		"display_name": w.c("recauth.display_name"), "metadata": map[string]string{"k": w.c("recauth.metadata")}, "alias": "c01-alias-u1", "canary": w.c("recauth.response")}}); resp != nil && resp.Auth != nil {
		w.cz.SecretText(w.caseID+":recauth.login.token", resp.Auth.ClientToken)
	}

	// ---- identity
	upAccessor := ""
	if resp := w.read("identity", "sys/auth"); resp != nil {
		if m, ok := resp.Data["c01up/"].(map[string]any); ok {
			upAccessor, _ = m["accessor"].(string)
		}
	}
	entID := ""
	if resp := w.upd("identity", "identity/entity", map[string]any{"name": "c01-entity", "metadata": map[string]any{"dept": w.c("identity.entity.metadata")}, "policies": []string{"c01pol"}}); resp != nil {
		entID = c01Str(resp, "id")
	}
	if entID != "" && upAccessor != "" {
		w.upd("identity", "identity/entity-alias", map[string]any{"name": "alice", "canonical_id": entID, "mount_accessor": upAccessor, "custom_metadata": map[string]any{"k": w.c("identity.alias.custom_metadata")}})
	}
	if entID != "" {
		w.upd("identity", "identity/group", map[string]any{"name": "c01-group", "metadata": map[string]any{"k": w.c("identity.group.metadata")}, "member_entity_ids": []string{entID}})
		w.upd("identity", "identity/entity/id/"+entID, map[string]any{"metadata": map[string]any{"dept": w.c("identity.entity.metadata2")}})
	}
	w.upd("identity", "identity/group", map[string]any{"name": "c01-ext", "type": "external", "metadata": map[string]any{"k": w.c("identity.extgroup.metadata")}})
	// login creates an entity + alias carrying the auth metadata
	if resp := w.do("userpass", vReq{Op: logical.UpdateOperation, Path: "auth/c01up/login/alice", Token: c01NoToken, Data: map[string]any{"password": alicePw}}); resp != nil && resp.Auth != nil {
		w.cz.SecretText(w.caseID+":userpass.alice.login.token", resp.Auth.ClientToken)
	}
	w.upd("oidc", "identity/oidc/key/c01key", map[string]any{"algorithm": "ES256", "allowed_client_ids": "*"})
	w.upd("oidc", "identity/oidc/assignment/c01assign", map[string]any{"entity_ids": []string{entID}})
	w.upd("oidc", "identity/oidc/client/c01client", map[string]any{"key": "c01key", "redirect_uris": []string{"https://" + w.c("oidc.client.redirect_uri") + ".example/cb"}, "assignments": []string{"c01assign"}})
	if resp := w.read("oidc", "identity/oidc/client/c01client"); resp != nil {
		w.cz.SecretText(w.caseID+":oidc.client_secret", c01Str(resp, "client_secret"))
		w.cz.SecretText(w.caseID+":oidc.client_id", c01Str(resp, "client_id"))
	}
	w.upd("oidc", "identity/oidc/scope/c01scope", map[string]any{"template": fmt.Sprintf(`{"team": "%s"}`, w.c("oidc.scope.template")), "description": w.c("oidc.scope.description")})
	w.upd("oidc", "identity/oidc/provider/c01prov", map[string]any{"allowed_client_ids": []string{"*"}, "scopes_supported": []string{"c01scope"}})
	w.upd("oidc", "identity/oidc/role/c01oidcrole", map[string]any{"key": "c01key", "template": fmt.Sprintf(`{"t": "%s"}`, w.c("oidc.role.template"))})
	if resp := w.upd("mfa", "identity/mfa/method/totp", map[string]any{"issuer": w.c("mfa.totp.issuer"), "period": 30, "key_size": 30, "algorithm": "SHA256", "digits": 6}); resp != nil && entID != "" {
		mid := c01Str(resp, "method_id")
		if r2 := w.upd("mfa", "identity/mfa/method/totp/admin-generate", map[string]any{"method_id": mid, "entity_id": entID}); r2 != nil {
			if u := c01Str(r2, "url"); u != "" {
				if i := strings.Index(u, "secret="); i >= 0 {
					sec := u[i+7:]
					if j := strings.IndexByte(sec, '&'); j >= 0 {
						sec = sec[:j]
					}
					w.cz.SecretText(w.caseID+":mfa.totp.secret", sec)
				}
			}
		}
		w.upd("mfa", "identity/mfa/login-enforcement/c01enf", map[string]any{"mfa_method_ids": []string{mid}, "auth_method_accessors": []string{upAccessor}})
		w.do("mfa", vReq{Op: logical.DeleteOperation, Path: "identity/mfa/login-enforcement/c01enf"})
	}

	// ---- transit: exported key material is a secret the store must not show
	w.upd("transit", "c01transit/keys/aes", map[string]any{"type": "aes256-gcm96", "exportable": true})
	w.upd("transit", "c01transit/keys/ed", map[string]any{"type": "ed25519", "exportable": true})
	w.upd("transit", "c01transit/keys/aes/rotate", nil)
	w.upd("transit", "c01transit/keys/aes/config", map[string]any{"min_decryption_version": 1, "deletion_allowed": true})
	for _, ex := range []string{"encryption-key/aes", "hmac-key/aes", "signing-key/ed"} {
		if resp := w.read("transit", "c01transit/export/"+ex); resp != nil {
			if keys, ok := resp.Data["keys"].(map[string]string); ok {
				for ver, b64 := range keys {
					if raw, err := base64.StdEncoding.DecodeString(b64); err == nil {
						w.cz.Secret(fmt.Sprintf("%s:transit.export.%s.v%s", w.caseID, ex, ver), raw)
						w.r.Count("transit_keys_exported", 1)
					}
				}
			} else {
				w.t.Logf("verif: transit export keys has type %T", resp.Data["keys"])
			}
		}
	}
	if resp := w.upd("transit", "c01transit/encrypt/aes", map[string]any{"plaintext": base64.StdEncoding.EncodeToString([]byte(w.c("transit.plaintext")))}); resp != nil {
		w.upd("transit", "c01transit/decrypt/aes", map[string]any{"ciphertext": c01Str(resp, "ciphertext")})
	}

	// ---- pki: the exported root key is a secret the store must not show
	if resp := w.upd("pki", "c01pki/root/generate/exported", map[string]any{"common_name": "c01 root " + w.c("pki.root.cn"), "key_type": "ec", "key_bits": 256, "ttl": "8760h", "ou": w.c("pki.root.ou")}); resp != nil {
		if blk, _ := pem.Decode([]byte(c01Str(resp, "private_key"))); blk != nil {
			w.cz.Secret(w.caseID+":pki.root.private_key.der", blk.Bytes)
			lines := strings.Split(strings.TrimSpace(c01Str(resp, "private_key")), "\n")
			for i, ln := range lines {
				if len(ln) >= 40 && !strings.HasPrefix(ln, "-----") {
					w.cz.SecretText(fmt.Sprintf("%s:pki.root.private_key.pem-line%d", w.caseID, i), ln)
				}
			}
			w.r.Count("pki_private_keys_exported", 1)
		}
	}
	w.upd("pki", "c01pki/config/urls", map[string]any{"issuing_certificates": []string{"http://" + w.c("pki.urls.issuing") + ".example/ca"}, "crl_distribution_points": []string{"http://" + w.c("pki.urls.crl") + ".example/crl"}})
	w.upd("pki", "c01pki/roles/web", map[string]any{"allowed_domains": []string{w.c("pki.role.allowed_domain") + ".example"}, "allow_subdomains": true, "allow_any_name": true, "key_type": "ec", "key_bits": 256, "ou": []string{w.c("pki.role.ou")}, "max_ttl": "72h"})
	if resp := w.upd("pki", "c01pki/issue/web", map[string]any{"common_name": "host." + w.c("pki.issue.cn") + ".example", "ttl": "1h"}); resp != nil {
		if blk, _ := pem.Decode([]byte(c01Str(resp, "private_key"))); blk != nil {
			w.cz.Secret(w.caseID+":pki.leaf.private_key.der", blk.Bytes)
		}
	}
	w.upd("pki", "c01pki/intermediate/generate/internal", map[string]any{"common_name": "c01 int " + w.c("pki.int.cn"), "key_type": "ec", "key_bits": 256})

	// ---- system configuration values
	w.upd("sysconfig", "sys/config/cors", map[string]any{"allowed_origins": []string{"https://" + w.c("cors.allowed_origin") + ".example"}, "allowed_headers": []string{"X-" + w.c("cors.allowed_header")}})
	w.upd("sysconfig", "sys/config/auditing/request-headers/X-C01-Audited", map[string]any{"hmac": true})
	w.upd("sysconfig", "sys/quotas/rate-limit/c01quota", map[string]any{"rate": 100000, "path": "c01kv1/"})
	w.upd("sysconfig", "sys/rotate/config", map[string]any{"max_operations": 2000000, "interval": "48h"})
	w.upd("ui-headers", "sys/config/ui/headers/X-C01-Custom", map[string]any{"values": []string{w.c("ui.header.value0"), w.c("ui.header.value1")}})
	w.upd("ui-headers", "sys/config/ui/headers/X-C01-Other", map[string]any{"values": []string{w.c("ui.header2.value")}})

	// ---- namespaces: a plain child and a separately sealed child
	w.upd("namespace", "sys/namespaces/c01ns1", map[string]any{"custom_metadata": map[string]any{"owner": w.c("ns1.custom_metadata")}})
	w.updNS("namespace", "c01ns1/", "sys/mounts/kv", map[string]any{"type": "kv-v2", "description": w.c("ns1.kv.description")})
	w.quiet()
	w.updNS("namespace", "c01ns1/", "kv/data/item", map[string]any{"data": map[string]any{"k": w.c("ns1.kv.data")}})
	w.updNS("namespace", "c01ns1/", "sys/policies/acl/nspol", map[string]any{"policy": fmt.Sprintf("path \"kv/%s\" { capabilities = [\"read\"] }", w.c("ns1.policy.path"))})
	w.token("namespace", map[string]any{"policies": []string{"nspol"}, "meta": map[string]any{"k": w.c("ns1.token.meta")}}, "c01ns1/")
	w.do("namespace", vReq{Op: logical.PatchOperation, Path: "sys/namespaces/c01ns1", Data: map[string]any{"custom_metadata": map[string]any{"owner2": w.c("ns1.custom_metadata.patch")}}})

	if resp := w.upd("sealed-namespace", "sys/namespaces/c01ns2", map[string]any{"seal": `{ "seal": { "shamir": { "shares": 3, "threshold": 2 } } }`, "custom_metadata": map[string]any{"owner": w.c("ns2.custom_metadata")}}); resp != nil {
		if shares, ok := resp.Data["key_shares"].([]string); ok && len(shares) > 0 {
			w.shares["c01ns2/"] = shares
			for i, s := range shares {
				w.cz.SecretText(fmt.Sprintf("%s:ns2.key_share_hex.%d", w.caseID, i), s)
				if raw, err := hex.DecodeString(s); err == nil {
					w.cz.Secret(fmt.Sprintf("%s:ns2.key_share.%d", w.caseID, i), raw)
				}
			}
			uuid, _ := resp.Data["uuid"].(string)
			if uuid == "" {
				if ns, err := v.Core.namespaceStore.GetNamespaceByPath(namespace.RootContext(context.Background()), "c01ns2/"); err == nil && ns != nil {
					uuid = ns.UUID
				}
			}
			if uuid != "" {
				w.nsUUID["c01ns2/"] = uuid
				w.nsKR["c01ns2/"] = &c01KR{Name: "ns:c01ns2/", Prefix: barrier.NamespacePrefix + uuid + "/", Keys: map[uint32][]byte{}}
				w.r.Count("sealed_namespaces", 1)
			}
		} else {
			w.t.Logf("verif: sealed namespace response carries key_shares of type %T", resp.Data["key_shares"])
		}
	}
	w.sample()
	if len(w.shares["c01ns2/"]) > 0 {
		w.unsealNS("c01ns2/") // a sealable namespace is born sealed
	}
	w.updNS("sealed-namespace", "c01ns2/", "sys/mounts/kv", map[string]any{"type": "kv", "description": w.c("ns2.kv.description")})
	w.updNS("sealed-namespace", "c01ns2/", "kv/item", map[string]any{"v": w.c("ns2.kv.value")})
	w.updNS("sealed-namespace", "c01ns2/", "sys/policies/acl/nspol", map[string]any{"policy": fmt.Sprintf("path \"kv/%s\" { capabilities = [\"read\"] }", w.c("ns2.policy.path"))})
	w.token("sealed-namespace", map[string]any{"policies": []string{"nspol"}, "meta": map[string]any{"k": w.c("ns2.token.meta")}}, "c01ns2/")
	w.updNS("sealed-namespace", "c01ns2/", "sys/rotate", nil)
	w.updNS("sealed-namespace", "c01ns2/", "kv/item2", map[string]any{"v": w.c("ns2.kv.value.after-rotate")})
	if len(w.shares["c01ns2/"]) > 0 {
		w.upd("sealed-namespace", "sys/namespaces/c01ns2/seal", nil)
		w.unsealNS("c01ns2/")
		w.updNS("sealed-namespace", "c01ns2/", "kv/item3", map[string]any{"v": w.c("ns2.kv.value.after-unseal")})
	}

	// ---- raw storage endpoint (enabled on this core)
	w.rawFamily("term1")

	// ---- key rotation, then a generic phase so that plenty of records are written under the new term
	w.upd("rotate", "sys/rotate", nil)
	w.generic(generic/2, entID)
	w.upd("rotate", "sys/rotate/root", nil)
	w.upd("rotate", "sys/rotate/keyring", nil)
	w.generic(generic-generic/2, entID)
	w.rawFamily("after-rotation")

	// ---- mount moves and removals
	w.upd("remount", "sys/remount", map[string]any{"from": "c01rec/", "to": "c01recmoved/"})
	w.quiet()
	w.upd("rec", "c01recmoved/data/item2", map[string]any{"value": w.c("rec.moved.value")})
	w.do("unmount", vReq{Op: logical.DeleteOperation, Path: "sys/mounts/c01recmoved"})
	if leaseID != "" {
		w.upd("lease", "sys/leases/revoke", map[string]any{"lease_id": leaseID})
	}
	w.quiet()

	// ---- restart on the same store: unseal-time upgrades and reloads write as well
	nv, err := v.Restart()
	if err != nil && shamir && nv != nil && nv.Core != nil {
		// the shared restart helper only knows stored keys: hand the Shamir shares over ourselves
		for _, k := range v.Keys {
			if _, uerr := TestCoreUnseal(nv.Core, TestKeyCopy(k)); uerr != nil {
				break
			}
		}
		if !nv.Core.Sealed() {
			err = nil
			w.t.Cleanup(nv.Close)
		}
	}
	if err != nil {
		w.r.Inconc("restart failed: %v", err)
		return
	}
	w.v = nv
	v = nv
	w.sample()
	w.r.Count("restarts", 1)
	if len(w.shares["c01ns2/"]) > 0 {
		w.unsealNS("c01ns2/")
		w.updNS("sealed-namespace", "c01ns2/", "kv/item4", map[string]any{"v": w.c("ns2.kv.value.after-restart")})
	}
	w.read("kv1", "c01kv1/app/db")
	w.upd("kv1", "c01kv1/after/restart", w.val("kv1.after-restart"))
	w.upd("kv2", "c01kv2/data/after/restart", map[string]any{"data": w.val("kv2.after-restart")})
	w.upd("ui-headers", "sys/config/ui/headers/X-C01-After-Restart", map[string]any{"values": []string{w.c("ui.header.after-restart")}})
	w.generic(10, entID)

	// ---- rekeys with a PGP-protected backup: the current API keeps the backup behind the barrier, the
	// legacy entry points (Core.RekeyInit/RekeyUpdate, what the HTTP layer calls for sys/rekey*) write it directly
	pk := func(s string) string { return strings.ReplaceAll(s, "\n", "") }
	pubs := []string{pk(pgpkeys.TestPubKey1), pk(pgpkeys.TestPubKey2), pk(pgpkeys.TestPubKey3)}
	privs := []string{pk(pgpkeys.TestPrivKey1), pk(pgpkeys.TestPrivKey2), pk(pgpkeys.TestPrivKey3)}
	if shamir && len(v.Keys) > 0 {
		cur := v.Keys
		if resp := w.upd("rekey", "sys/rotate/root/init", map[string]any{"secret_shares": 3, "secret_threshold": 2, "pgp_keys": pubs, "backup": true}); resp != nil {
			nonce := c01Str(resp, "nonce")
			var newShares [][]byte
			for _, k := range cur {
				r2 := w.upd("rekey", "sys/rotate/root/update", map[string]any{"key": hex.EncodeToString(k), "nonce": nonce})
				if r2 != nil && r2.Data != nil {
					if done, _ := r2.Data["complete"].(bool); done {
						w.r.Count("rekeys_completed", 1)
						encs, _ := r2.Data["keys_base64"].([]string)
						for i, e := range encs {
							if buf, err := pgpkeys.DecryptBytes(e, privs[i%3]); err == nil {
								if raw, err := hex.DecodeString(buf.String()); err == nil {
									newShares = append(newShares, raw)
									w.cz.Secret(fmt.Sprintf("%s:rekey.new-share.%d", w.caseID, i), raw)
									w.cz.SecretText(fmt.Sprintf("%s:rekey.new-share-hex.%d", w.caseID, i), buf.String())
								}
							}
						}
						break
					}
				}
			}
			w.read("rekey", "sys/rotate/root/backup")
			w.upd("kv1", "c01kv1/after/rekey", w.val("kv1.after-rekey"))
			if len(newShares) >= 2 {
				w.rekeyLegacy(false, newShares, pubs)
			} else {
				w.t.Logf("verif: could not recover the new shares (%d); legacy rekey skipped", len(newShares))
			}
		}
	}
	if !shamir {
		// recovery-key rekey through the legacy entry points; any 3-of-3 split of the recovery key is a valid share set
		ctx := namespace.RootContext(context.Background())
		if rk, err := v.Core.seal.RecoveryKey(ctx); err == nil && len(rk) > 0 {
			w.cz.Secret(w.caseID+":recovery-key", rk)
			if shares, err := shamirpkg.Split(rk, 3, 3); err == nil {
				w.rekeyLegacy(true, shares, pubs)
			}
		} else {
			w.t.Logf("verif: recovery key not available: %v", err)
		}
	}
	w.quiet()
}

// rekeyLegacy drives Core.RekeyInit / Core.RekeyUpdate (the entry points behind the sys/rekey* HTTP handlers).
func (w *c01W) rekeyLegacy(recovery bool, shares [][]byte, pubs []string) {
	v := w.v
	fam := "rekey-legacy-barrier"
	if recovery {
		fam = "rekey-legacy-recovery"
	}
	v.Probe.Tag(fam)
	defer v.Probe.Untag()
	ctx := namespace.RootContext(context.Background())
	if err := v.Core.RekeyInit(&SealConfig{SecretShares: 3, SecretThreshold: 2, PGPKeys: pubs, Backup: true}, recovery); err != nil {
		w.t.Logf("verif: legacy rekey init (recovery=%v) failed: %v", recovery, err)
		return
	}
	conf, err := v.Core.RekeyConfig(recovery)
	if err != nil || conf == nil {
		w.t.Logf("verif: legacy rekey config: %v", err)
		return
	}
	for _, sh := range shares {
		res, err := v.Core.RekeyUpdate(ctx, append([]byte(nil), sh...), conf.Nonce, recovery)
		w.r.Eval(1)
		if err != nil {
			w.t.Logf("verif: legacy rekey update (recovery=%v) failed: %v", recovery, err)
			_ = v.Core.RekeyCancel(recovery)
			return
		}
		if res != nil {
			w.r.Count("legacy_rekeys_completed", 1)
			w.r.Count("family_ok:"+fam, 1)
			break
		}
	}
	w.sample()
	if b, err := v.Core.RekeyRetrieveBackup(ctx, recovery); err == nil && b != nil {
		w.r.Count("legacy_rekey_backups_read", 1)
	}
	w.upd("kv1", "c01kv1/after/legacy-rekey", w.val("kv1.after-legacy-rekey"))
	if err := v.Core.RekeyDeleteBackup(ctx, recovery); err != nil {
		w.t.Logf("verif: legacy rekey backup delete: %v", err)
	}
	w.sample()
}

// c01RawLookalikes: storage keys that share a prefix with an entry of the pinned bypass table (or with another
// bootstrap / meta record) without being that record. Written through sys/raw they are ordinary barrier records.
var c01RawLookalikes = []string{
	"core/seal-config-backup", "core/seal-config.bak", "core/seal-config/previous", "core/seal-config2",
	"core/recovery-config.bak", "core/recovery-config/previous", "core/recovery-config-backup",
	"core/hsm/barrier-unseal-keys2", "core/hsm/barrier-unseal-keys/old", "core/hsm/other",
	"core/recovery-key-old", "core/recovery-key/1",
	"core/unseal-keys-backup/x", "core/unseal-keys-backup2", "core/recovery-keys-backup.old", "core/recovery-keys-backup/x",
	"core/lock2", "core/lock/x", "core/root-key2", "core/shamir-kek.bak", "core/upgrade/x",
	"sys/uiconfig_plaintext2", "sys/uiconfig_plaintext/x", "sys/ui/config_plaintext", "sys/uiconfig2",
}

var c01RawOrdinary = []string{"logical/c01raw/item", "sys/policy/c01raw", "core/c01raw", "auth/c01raw/user/x", "c01raw-top"}

// rawFamily drives the raw storage endpoint: writes / reads / lists / deletes with canary values to ordinary keys
// and to look-alikes of every bootstrap record, in the root namespace and under the storage prefix of the child
// namespaces, plus read-only access to the exact bootstrap paths.
func (w *c01W) rawFamily(phase string) {
	v := w.v
	prefixes := []string{""}
	ctx := namespace.RootContext(context.Background())
	for _, nsp := range []string{"c01ns1/", "c01ns2/"} {
		if ns, err := v.Core.namespaceStore.GetNamespaceByPath(ctx, nsp); err == nil && ns != nil && ns.UUID != "" {
			prefixes = append(prefixes, barrier.NamespacePrefix+ns.UUID+"/")
		}
	}
	n := 0
	for pi, pre := range prefixes {
		keys := append(append([]string(nil), c01RawOrdinary...), c01RawLookalikes...)
		for ki, k := range keys {
			n++
			full := pre + k
			where := fmt.Sprintf("raw.%s.%d.%s", phase, pi, k)
			data := map[string]any{"value": fmt.Sprintf(`{"operator_note":"%s","n":%d}`, w.c(where), n)}
			switch (ki + pi) % 4 {
			case 1:
				data["compression_type"] = "gzip"
			case 2:
				data = map[string]any{"value": base64.StdEncoding.EncodeToString([]byte("bin\x00\x01" + w.c(where+".b64"))), "encoding": "base64"}
			}
			failedBefore := w.r.Get("requests_failed")
			w.upd("raw", "sys/raw/"+full, data)
			if w.r.Get("requests_failed") == failedBefore {
				w.r.Count("raw_writes", 1)
				if ki >= len(c01RawOrdinary) {
					w.r.Count("raw_writes_lookalike", 1)
				}
				if pi > 0 {
					w.r.Count("raw_writes_under_namespace_prefix", 1)
				}
			}
			// overwrite (update path with the existence check true), read back, and delete every third one
			if ki%5 == 0 {
				w.upd("raw", "sys/raw/"+full, map[string]any{"value": w.c(where + ".overwrite")})
			}
			if resp := w.read("raw", "sys/raw/"+full); resp != nil {
				w.r.Count("raw_reads", 1)
			}
			if ki%3 == 2 {
				w.do("raw", vReq{Op: logical.DeleteOperation, Path: "sys/raw/" + full})
				w.r.Count("raw_deletes", 1)
			}
		}
		for _, dir := range []string{"core/", "core/hsm/", "sys/", "core/seal-config/"} {
			if resp := w.do("raw", vReq{Op: logical.ListOperation, Path: "sys/raw/" + pre + dir}); resp != nil {
				w.r.Count("raw_lists", 1)
			}
		}
		// the exact bootstrap paths, read-only (a refusal or a decryption error is as good as a value here)
		for _, k := range []string{"core/seal-config", "core/recovery-config", "core/hsm/barrier-unseal-keys", "core/recovery-key", "core/keyring", "core/root-key", "core/shamir-kek", "sys/uiconfig_plaintext"} {
			resp, err := v.Do(vReq{Tag: "raw-bootstrap-read", Op: logical.ReadOperation, Path: "sys/raw/" + pre + k, Token: v.Root})
			w.r.Eval(1)
			w.r.Count("raw_bootstrap_reads", 1)
			if vOK(resp, err) {
				w.r.Count("raw_bootstrap_reads_ok", 1)
			}
		}
		w.sample()
	}
}

func (w *c01W) unsealNS(ns string) {
	name := strings.TrimSuffix(ns, "/")
	for _, s := range w.shares[ns] {
		resp := w.upd("sealed-namespace", "sys/namespaces/"+name+"/unseal", map[string]any{"key": s})
		if resp != nil && resp.Data != nil {
			if sealed, ok := resp.Data["sealed"].(bool); ok && !sealed {
				w.r.Count("namespace_unseals", 1)
				return
			}
		}
	}
}

// generic issues n seeded writes of random shapes over the mounted engines.
func (w *c01W) generic(n int, entID string) {
	for i := 0; i < n; i++ {
		id := fmt.Sprintf("g%d", len(w.samples))
		switch w.rng.Intn(12) {
		case 0, 1:
			w.upd("generic-kv1", fmt.Sprintf("c01kv1/gen/%d/%s", w.rng.Intn(6), id), w.val("gen.kv1."+id))
		case 2, 3:
			w.upd("generic-kv2", fmt.Sprintf("c01kv2/data/gen/%d", w.rng.Intn(8)), map[string]any{"data": w.val("gen.kv2." + id)})
		case 4:
			w.upd("generic-kv2", fmt.Sprintf("c01kv2/metadata/gen/%d", w.rng.Intn(8)), map[string]any{"custom_metadata": map[string]any{"k": w.c("gen.kv2.meta." + id)}})
		case 5:
			if len(w.tokens) > 0 {
				tok := kit.Pick(w.rng, w.tokens[:1])
				w.do("generic-cubbyhole", vReq{Op: logical.UpdateOperation, Path: "cubbyhole/gen/" + id, Token: tok, Data: w.val("gen.cubbyhole." + id)})
			}
		case 6:
			w.upd("generic-policy", fmt.Sprintf("sys/policies/acl/gen%d", w.rng.Intn(5)), map[string]any{"policy": fmt.Sprintf("# %s\npath \"x/%s\" { capabilities = [\"read\"] }", w.c("gen.policy.comment."+id), w.c("gen.policy.path."+id))})
		case 7:
			w.token("generic-token", map[string]any{"policies": []string{"default"}, "meta": map[string]any{"k": w.c("gen.token.meta." + id)}, "display_name": w.c("gen.token.display." + id), "ttl": "15m"}, "")
		case 8:
			if entID != "" {
				w.upd("generic-identity", "identity/entity/id/"+entID, map[string]any{"metadata": map[string]any{"dept": w.c("gen.entity.metadata." + id)}})
			} else {
				w.upd("generic-identity", "identity/entity", map[string]any{"name": "gen-" + id, "metadata": map[string]any{"dept": w.c("gen.entity.metadata." + id)}})
			}
		case 9:
			if resp := w.do("generic-wrap", vReq{Op: logical.UpdateOperation, Path: "sys/wrapping/wrap", Data: w.val("gen.wrap." + id), WrapTTL: 5 * time.Minute}); resp != nil && resp.WrapInfo != nil {
				w.cz.SecretText(w.caseID+":gen.wrap.token."+id, resp.WrapInfo.Token)
			}
		case 10:
			w.updNS("generic-ns1", "c01ns1/", fmt.Sprintf("kv/data/gen/%d", w.rng.Intn(5)), map[string]any{"data": w.val("gen.ns1." + id)})
		case 11:
			if len(w.shares["c01ns2/"]) > 0 {
				w.updNS("generic-ns2", "c01ns2/", fmt.Sprintf("kv/gen/%d", w.rng.Intn(5)), w.val("gen.ns2."+id))
			} else {
				w.upd("generic-kv1", "c01kv1/gen/x/"+id, w.val("gen.kv1."+id))
			}
		}
	}
}

// ---------------------------------------------------------------- the scan

type c01Put struct {
	Seq     uint64
	Key     string
	Val     []byte
	Tag     string
	Callers []string
	Final   bool // from the final snapshot rather than the journal
}

func c01SHA(v []byte) string {
	h := sha256.Sum256(v)
	return hex.EncodeToString(h[:8])
}

// selfTest guards against a blind scanner: a synthetic side record that carries a fresh canary in raw, hex and
// JSON-[]byte (base64 at every alignment) form must be reported; otherwise the run is inconclusive.
func (c *c01Canaries) selfTest(r *kit.Result) {
	probe := c.Text("self-test")
	want := map[string]bool{}
	for o := 0; o < 3; o++ {
		type rec struct {
			Note string
			Blob []byte
		}
		js, _ := json.Marshal(rec{Note: "hex:" + hex.EncodeToString([]byte(probe)), Blob: append([]byte(strings.Repeat("p", o)), []byte("{\"v\":\""+probe+"\"}")...)})
		hits := c.scan(append(js, []byte(" raw:"+probe)...))
		for _, h := range hits {
			if h.Canary.ID == probe {
				want[strings.SplitN(h.Form, "@", 2)[0]] = true
				if strings.HasPrefix(h.Form, "base64") {
					want[fmt.Sprintf("b64-%d", o)] = true
				}
			}
		}
	}
	for _, f := range []string{"raw", "hex", "b64-0", "b64-1", "b64-2"} {
		if !want[f] {
			r.Inconc("canary scanner self-test: form %s of a planted canary was not detected", f)
		}
	}
	r.Count("scanner_self_tests", 1)
}

func (w *c01W) analyse() {
	r, v := w.r, w.v
	w.sample()
	w.cz.selfTest(r)
	// secrets the barrier itself holds
	for i, rk := range w.root.Roots {
		w.cz.Secret(fmt.Sprintf("%s:barrier.root-key.%d", w.caseID, i), rk)
	}
	for t, k := range w.root.Keys {
		w.cz.Secret(fmt.Sprintf("%s:barrier.term-key.%d", w.caseID, t), k)
	}
	for _, nk := range w.nsKR {
		for i, rk := range nk.Roots {
			w.cz.Secret(fmt.Sprintf("%s:%s.root-key.%d", w.caseID, nk.Name, i), rk)
		}
		for t, k := range nk.Keys {
			w.cz.Secret(fmt.Sprintf("%s:%s.term-key.%d", w.caseID, nk.Name, t), k)
		}
	}
	log := v.Probe.StopLog()
	journal := v.Probe.StopJournal()
	snap := v.Probe.Snapshot()
	callers := map[string]map[string]bool{}
	for _, e := range log {
		if e.Op == "put" && e.Err == "" {
			k := e.Key + "|" + e.ValSHA
			if callers[k] == nil {
				callers[k] = map[string]bool{}
			}
			callers[k][c01ShortFunc(e.Caller)] = true
		}
	}
	r.Count("probe_events", len(log))
	var puts []c01Put
	for _, m := range journal {
		for _, wr := range m.Writes {
			if wr.Delete {
				r.Count("journal_deletes", 1)
				continue
			}
			p := c01Put{Seq: m.Seq, Key: wr.Key, Val: wr.Value, Tag: m.Tag}
			for c := range callers[wr.Key+"|"+c01SHA(wr.Value)] {
				p.Callers = append(p.Callers, c)
			}
			sort.Strings(p.Callers)
			puts = append(puts, p)
		}
	}
	r.Count("journal_puts", len(puts))
	lastSeq := w.samples[len(w.samples)-1].Seq
	for k, val := range snap {
		p := c01Put{Seq: lastSeq, Key: k, Val: val, Final: true}
		for c := range callers[k+"|"+c01SHA(val)] {
			p.Callers = append(p.Callers, c)
		}
		sort.Strings(p.Callers)
		puts = append(puts, p)
	}
	r.Count("final_store_records", len(snap))
	r.Count("canaries_planted", len(w.cz.infos))
	r.Count("canary_patterns", w.cz.npat)

	krs := []*c01KR{w.root}
	var nsPaths []string
	for p := range w.nsKR {
		nsPaths = append(nsPaths, p)
	}
	sort.Strings(nsPaths)
	for _, p := range nsPaths {
		krs = append(krs, w.nsKR[p])
	}
	otherKeys := []string{"core/mounts", "sys/token/id/x", "logical/x"}
	seenWriters := map[string]bool{}
	for _, p := range puts {
		src := "journal"
		if p.Final {
			src = "final-store"
		}
		wit := map[string]any{"key": p.Key, "seq": p.Seq, "source": src, "request": p.Tag, "writers": p.Callers, "value_len": len(p.Val), "value_head": c01HexN(p.Val, 48)}

		// ---- O3: canary search in key and value
		hits := w.cz.scan(p.Val)
		for _, h := range w.cz.scan([]byte(p.Key)) {
			h.Form += " (in the physical key)"
			hits = append(hits, h)
		}
		r.Count("records_scanned", 1)
		r.Count("bytes_scanned", len(p.Val)+len(p.Key))
		for _, h := range hits {
			hw := map[string]any{"hit": h}
			for k, x := range wit {
				hw[k] = x
			}
			switch {
			case c01IsUIKey(p.Key) && !h.Canary.Dynamic && strings.Contains(h.Canary.Where, ":ui.header"):
				r.Violate(c01ClassUI, w.caseID, fmt.Sprintf("value of sys/config/ui/headers (%s) stored in plaintext under physical key %q", h.Canary.Where, p.Key), hw)
				r.Count("ui_plaintext_hits", 1)
			case h.Canary.Dynamic:
				r.Violate("C01-secret-in-physical-store", w.caseID, fmt.Sprintf("a secret handed out or held by the server (%s, %s form) appears in plaintext in the physical store under %q", h.Canary.Where, h.Form, p.Key), hw)
			default:
				r.Violate("C01-canary-in-physical-store", w.caseID, fmt.Sprintf("a client-supplied value (%s, %s form) appears in plaintext in the physical store under %q", h.Canary.Where, h.Form, p.Key), hw)
			}
		}

		// ---- O1: the record is ciphertext of the right keyring, or a pinned bootstrap record
		// which keyring owns this key?
		owner := w.root
		rel := p.Key
		for _, k := range krs[1:] {
			if strings.HasPrefix(p.Key, k.Prefix) {
				owner = k
				rel = strings.TrimPrefix(p.Key, k.Prefix)
			}
		}
		if owner != w.root && rel == "core/seal-config" {
			owner = w.root // the seal configuration of a sealed namespace is kept by its parent
		}
		var opened *c01KR
		var openedAs string
		if len(p.Val) >= c01Overhead && (p.Val[4] == 1 || p.Val[4] == 2) {
			term := binary.BigEndian.Uint32(p.Val)
			for _, k := range krs {
				if tk, ok := k.Keys[term]; ok {
					if _, err := c01Open(tk, p.Val, p.Key); err == nil {
						opened, openedAs = k, "data"
						break
					}
				}
				if term == 1 {
					for _, rk := range k.Roots {
						if _, err := c01Open(rk, p.Val, p.Key); err == nil {
							opened, openedAs = k, "keyring"
							break
						}
					}
				}
				if opened != nil {
					break
				}
			}
		}
		if opened == nil {
			// not ciphertext of any live keyring: must be pinned by pattern and writer
			var pin *c01Bypass
			for i := range c01BypassSet {
				if c01BypassSet[i].Pattern.MatchString(p.Key) {
					pin = &c01BypassSet[i]
					break
				}
			}
			if pin == nil {
				// say whether it at least looks like a record of an unknown key (e.g. a keyring the harness lost track of)
				wit["note"] = "value does not open under any term key or root key of the root keyring or of any sealed namespace"
				r.Violate("C01-record-outside-encrypted-layer", w.caseID, fmt.Sprintf("physical record %q is neither authenticated ciphertext of a live keyring nor one of the fixed bootstrap records (writers: %v)", p.Key, p.Callers), wit)
				continue
			}
			okWriter := len(p.Callers) > 0
			for _, c := range p.Callers {
				found := false
				for _, a := range pin.Writers {
					if c == a || (strings.HasSuffix(a, ".") && strings.HasPrefix(c, a)) {
						found = true
					}
				}
				if !found {
					okWriter = false
				}
			}
			if !okWriter {
				r.Violate("C01-bypass-writer-not-pinned", w.caseID, fmt.Sprintf("bootstrap record %q (%s) was written outside the encrypted layer by %v, pinned writers are %v", p.Key, pin.Name, p.Callers, pin.Writers), wit)
			}
			r.Count("bypass_records:"+pin.Name, 1)
			for _, c := range p.Callers {
				if !seenWriters[pin.Name+"|"+c] {
					seenWriters[pin.Name+"|"+c] = true
					r.Count("direct_writer:"+pin.Name+" <- "+c, 1)
				}
			}
			if pin.Known != "" {
				r.Count("bypass_records_known_finding:"+pin.Known, 1)
			}
			continue
		}
		r.Count("records_opened_independently", 1)
		r.Count("records_opened_as_"+openedAs, 1)
		r.Count("records_opened_keyring:"+opened.Name, 1)
		if opened != owner {
			r.Violate("C01-wrong-keyring", w.caseID, fmt.Sprintf("record %q belongs to keyring %q (longest namespace prefix) but is sealed under keyring %q", p.Key, owner.Name, opened.Name), wit)
		}
		if p.Val[4] != 2 {
			r.Violate("C01-shape-version", w.caseID, fmt.Sprintf("record %q written by the running server carries legacy format version %d", p.Key, p.Val[4]), wit)
			continue
		}
		// bound to its key: must not open under other storage keys or with no additional data
		term := binary.BigEndian.Uint32(p.Val)
		k := opened.Keys[term]
		if openedAs == "keyring" {
			for _, rk := range opened.Roots {
				if _, err := c01Open(rk, p.Val, p.Key); err == nil {
					k = rk
				}
			}
		}
		for _, ok2 := range append([]string{"", p.Key + "/", "x" + p.Key}, otherKeys...) {
			if ok2 == p.Key {
				continue
			}
			var aad []byte
			if ok2 != "" {
				aad = []byte(ok2)
			}
			if _, err := c01OpenAAD(k, p.Val, aad); err == nil {
				wit["opens_under"] = ok2
				r.Violate("C01-shape-not-key-bound", w.caseID, fmt.Sprintf("record %q also opens under storage key %q", p.Key, ok2), wit)
				break
			}
			r.Count("binding_negative_checks", 1)
		}
		// sealed under the term that was active when it was written
		if openedAs == "data" && !p.Final {
			allowed := w.allowedTerms(p.Seq, opened.Prefix)
			if !allowed[term] {
				wit["allowed_terms"] = fmt.Sprint(allowed)
				r.Violate("C01-shape-term", w.caseID, fmt.Sprintf("record %q was sealed under term %d while the active term was %v", p.Key, term, allowed), wit)
			}
			r.Count("term_checks", 1)
			if term > 1 {
				r.Count("records_after_rotation", 1)
			}
		}
		if r.Nontrivial(fmt.Sprintf("%s|%s|%d", c01KeyClass(p.Key), opened.Name, term)) && len(r.Samples) < 6 {
			r.Sample(map[string]any{"case": w.caseID, "key": p.Key, "keyring": opened.Name, "term": term, "len": len(p.Val), "writers": p.Callers, "request": p.Tag})
		}
	}
	w.dump(puts)
	// every planted canary family must have reached the store at all (through the barrier): count requests that wrote
	tagged := map[string]bool{}
	for _, m := range journal {
		if m.Tag != "" {
			tagged[m.Tag] = true
		}
	}
	r.Count("request_families_that_wrote", len(tagged))
	if len(w.failed) > 0 {
		r.Note("%s: %d workload requests failed (first: %s)", w.caseID, len(w.failed), w.failed[0])
	}
}

// dump writes the list of physical puts (key shape, writers) next to the result file, for the reader of the evidence.
func (w *c01W) dump(puts []c01Put) {
	dir := os.Getenv("VERIF_OUT")
	if dir == "" {
		return
	}
	var sb strings.Builder
	for _, p := range puts {
		src := "journal"
		if p.Final {
			src = "final"
		}
		fmt.Fprintf(&sb, "%s seq=%d len=%d req=%s key=%s writers=%v\n", src, p.Seq, len(p.Val), p.Tag, p.Key, p.Callers)
	}
	_ = os.WriteFile(filepath.Join(dir, "c01-puts-"+strings.ReplaceAll(w.caseID, ":", "-")+".txt"), []byte(sb.String()), 0o644)
}

func (w *c01W) allowedTerms(seq uint64, prefix string) map[uint32]bool {
	out := map[uint32]bool{}
	i := sort.Search(len(w.samples), func(i int) bool { return w.samples[i].Seq >= seq })
	// samples[i-1].Seq < seq <= samples[i].Seq
	for _, j := range []int{i - 1, i} {
		if j >= 0 && j < len(w.samples) {
			if t, ok := w.samples[j].Terms[prefix]; ok {
				out[t] = true
			}
		}
	}
	if i == 0 || len(out) == 0 {
		out[1] = true // before the first sample only the initial term exists
	}
	return out
}

func c01HexN(b []byte, n int) string {
	if len(b) > n {
		return hex.EncodeToString(b[:n]) + fmt.Sprintf("...(%d bytes)", len(b))
	}
	return hex.EncodeToString(b)
}

var c01UUIDRe = regexp.MustCompile(`[0-9a-f]{8}-[0-9a-f]{4}-[0-9a-f]{4}-[0-9a-f]{4}-[0-9a-f]{12}`)
var c01HexRe = regexp.MustCompile(`[0-9a-f]{32,}`)

// c01KeyClass abstracts a physical key to its shape (uuids, hashes and generated names removed).
func c01KeyClass(k string) string {
	k = c01UUIDRe.ReplaceAllString(k, "<uuid>")
	k = c01HexRe.ReplaceAllString(k, "<hex>")
	parts := strings.Split(k, "/")
	if len(parts) > 5 {
		parts = append(parts[:5], "...")
	}
	return strings.Join(parts, "/")
}

// c01Boot boots a core the way the shared vBoot does, but with the raw storage endpoint enabled
// (CoreConfig.EnableRaw; vOpts has no field for it). The returned vCore works with the shared helpers.
func c01Boot(t *testing.T, phys physical.Backend, probe *kit.Probe, shamir bool, lf, cf map[string]logical.Factory) *vCore {
	t.Helper()
	v := &vCore{t: t, Phys: phys, Probe: probe, Opts: vOpts{Phys: phys, ShamirSeal: shamir, Logical: lf, Credential: cf}}
	logger := vLogger()
	conf := testCoreConfig(&vT{t}, phys, logger)
	conf.DisableCache = true
	conf.EnableRaw = true
	conf.NumExpirationWorkers = numExpirationWorkersTest
	v.Rec = newVRec()
	conf.LogicalBackends["verifrec"] = v.Rec.Factory(logical.TypeLogical)
	conf.CredentialBackends["verifrec"] = v.Rec.Factory(logical.TypeCredential)
	for k, f := range lf {
		conf.LogicalBackends[k] = f
	}
	for k, f := range cf {
		conf.CredentialBackends[k] = f
	}
	if shamir {
		conf.Seal = nil
	} else {
		v.Access, _ = vaultseal.NewTestSeal(&vaultseal.TestSealOpts{Logger: logger})
		s, err := NewAutoSeal(v.Access)
		if err != nil {
			t.Fatalf("verif: auto seal: %v", err)
		}
		conf.Seal = s
	}
	core, err := NewCore(conf)
	if err != nil {
		t.Fatalf("verif: new core: %v", err)
	}
	v.Core = core
	v.Keys, v.Root = TestCoreInit(&vT{t}, core)
	if shamir {
		for _, k := range v.Keys {
			if _, err := TestCoreUnseal(core, TestKeyCopy(k)); err != nil {
				t.Fatalf("verif: unseal: %v", err)
			}
		}
	} else if err := core.UnsealWithStoredKeys(namespace.RootContext(context.Background())); err != nil {
		t.Fatalf("verif: unseal with stored keys: %v", err)
	}
	if core.Sealed() {
		t.Fatalf("verif: core still sealed after unseal")
	}
	t.Cleanup(v.Close)
	return v
}

// ---------------------------------------------------------------- test

func TestVerif_C01_CanaryScan(t *testing.T) {
	seed := kit.Seed(1)
	shard, shards := kit.Shard()
	r := kit.NewResult(t, "c01-canary-scan", seed, "a full core on a journaling probe store (transactional / plain; auto seal / Shamir seal) runs an API workload (kv v1 leased + kv v2 data/metadata/versions, policies incl. password policies, tokens + roles + batch/orphan/child tokens, cubbyhole, response wrapping, userpass, approle, recording auth/secret backends, identity entities/aliases/groups/OIDC/MFA-TOTP, transit with exported keys, PKI with exported root key, CORS / audited headers / quotas / UI headers, the raw storage endpoint (sys/raw writes/reads/lists/deletes, plain / gzip / base64, to ordinary keys and to look-alikes of every bootstrap record, in the root and under both child-namespace storage prefixes, plus read-only access to the exact bootstrap paths), a plain and a separately sealed namespace incl. seal+unseal, keyring rotation x2, root-key rotation, remount/unmount, restart, and with the Shamir seal a rekey with PGP backup) in which every value position carries a unique canary, plus a seeded phase of random-shaped writes; then every physical put ever made (journal) and the final store are (a) searched for every canary and every server-issued/held secret in raw, hex and base64 (3 alignments) form, (b) opened with crypto/aes+cipher.NewGCM: format 2, keyring owning the key prefix, bound to the storage key, term active at write time - anything else must be a pinned bootstrap record by key pattern and writer function. A record is non-trivial when it opened as barrier ciphertext; distinct = (key shape, keyring, term)")
	defer r.Write(t)
	type variant struct {
		tx, shamir bool
	}
	variants := []variant{{true, false}, {false, true}}
	n := kit.N(4, 60)
	for i := 0; i < n; i++ {
		if i%shards != shard {
			continue
		}
		caseID := fmt.Sprintf("workload:%d", i)
		if !kit.WantCase(caseID) {
			continue
		}
		vr := variants[i%len(variants)]
		if i >= 2 && i%4 >= 2 {
			vr.tx = !vr.tx
		}
		rng := kit.NewRand(seed, uint64(5000+i))
		phys, probe := kit.NewInmemProbe(vr.tx)
		probe.StartJournal()
		probe.StartLog(true)
		v := c01Boot(t, phys, probe, vr.shamir,
			map[string]logical.Factory{"kv": kv.Factory, "kv-v2": kv.VersionedKVFactory, "transit": transit.Factory, "pki": pki.Factory},
			map[string]logical.Factory{"userpass": userpass.Factory, "approle": approle.Factory})
		w := &c01W{t: t, v: v, r: r, rng: rng, cz: c01NewCanaries(rng), caseID: caseID,
			root: &c01KR{Name: "root", Keys: map[uint32][]byte{}}, nsKR: map[string]*c01KR{}, nsUUID: map[string]string{}, shares: map[string][]string{}}
		w.samples = []c01Sample{{Seq: 0, Terms: map[string]uint32{"": 1}}}
		w.run(vr.shamir, kit.N(120, 500))
		w.analyse()
		r.Count("workloads", 1)
		r.Count(fmt.Sprintf("workloads_tx=%v_shamir=%v", vr.tx, vr.shamir), 1)
		w.v.Close()
		if int64(r.NViolations())-r.Get("violations:"+c01ClassUI) > 60 { // the recorded known finding must not cut coverage short
			break
		}
	}
	per := r.Get("workloads")
	if per < 1 {
		per = 1
	}
	r.Require("workloads", int64(n/shards))
	r.Require("requests_ok", 200*per)
	r.Require("canaries_planted", 300*per)
	r.Require("journal_puts", 300*per)
	r.Require("records_opened_independently", 600*per)
	r.Require("records_after_rotation", 120*per)
	r.Require("term_checks", 300*per)
	r.Require("binding_negative_checks", 3000*per)
	r.Require("bypass_records:seal-config", per)
	r.Require("bypass_records:stored-keys", per)
	r.Require("scanner_self_tests", per)
	r.Require("restarts", per)
	for _, fam := range []string{"kv1", "kv2", "policy", "token", "cubbyhole", "wrapping", "userpass", "approle", "identity", "oidc", "transit", "pki", "namespace", "sealed-namespace", "rotate", "ui-headers", "sysconfig"} {
		r.Require("family_ok:"+fam, 1)
	}
	r.Require("family_ok:raw", 100*per)
	r.Require("raw_writes_lookalike", 100*per)
	r.Require("raw_writes_under_namespace_prefix", 50*per)
	r.Require("raw_reads", 100*per)
	r.Require("raw_lists", 4*per)
	r.Require("transit_keys_exported", 2)
	r.Require("pki_private_keys_exported", 1)
	r.Require("sealed_namespaces", 1)
	r.Require("namespace_unseals", 1)
	r.Require("records_opened_keyring:ns:c01ns2/", 5)
}
