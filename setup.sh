#!/bin/bash
# Offline setup: nothing to fetch. Verifies the toolchain and warms the build cache for the kit.
set -e
export GOFLAGS=-mod=mod GOPROXY=off GOSUMDB=off GOTOOLCHAIN=local
cd /verif
go1.27.0 version
python3 -c 'import json; json.load(open("MANIFEST.json")); json.load(open("known_findings.json"))'
mkdir -p out evidence
echo setup ok
