#!/bin/bash
# usage: runall.sh [tier] [parallel] [ids...]  -> out/runall-<tier>.log (one line per check); evidence is rewritten by each check
tier="${1:-quick}"; par="${2:-3}"; shift 2 2>/dev/null
ids="${*:-C01 C02 C03 C04 C05 C06 C07 C08 C09 C10 C11 C12 C13 C14 C15 C16 C17 C18 C19 C20}"
mkdir -p out
printf '%s\n' $ids | xargs -P "$par" -I{} bash -c 't0=$(date +%s); ./check {} '"$tier"' > out/runall-{}-'"$tier"'.log 2>&1; rc=$?; echo "$(date +%H:%M:%S) {} '"$tier"' seed=${VERIF_SEED:-default} rc=$rc $(( $(date +%s)-t0 ))s $(grep -c "^KNOWN-FINDING" out/runall-{}-'"$tier"'.log) known $(grep -c "^VIOLATION" out/runall-{}-'"$tier"'.log) viol" >> out/runall-'"$tier"'.log'
