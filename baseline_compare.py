#!/usr/bin/env python3
"""usage: baseline_compare.py <go-test-json-output>  -> lists BASELINE stable_pass tests that did not pass"""
import json,sys
base=json.load(open('/root/.vp/BASELINE.json'))
want=set(base['stable_pass'])
passed=set(); failed=set()
for l in open(sys.argv[1], errors='replace'):
    l=l.strip()
    if not l.startswith('{'): continue
    try: e=json.loads(l)
    except Exception: continue
    if e.get('Test') and e.get('Action') in ('pass','fail'):
        n="%s::%s"%(e['Package'],e['Test'])
        (passed if e['Action']=='pass' else failed).add(n)
missing=sorted(want-passed)
print("stable_pass=%d passed_now=%d failed_now=%d missing_from_pass=%d"%(len(want),len(passed),len(failed),len(missing)))
for m in missing[:60]: print("  MISSING", m, "(failed)" if m in failed else "(not run)")
sys.exit(1 if missing else 0)
