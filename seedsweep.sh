#!/bin/bash
# usage: seedsweep.sh "1 2 3" [parallel] [ids...] -> out/runall-quick.log (one line per check and seed)
seeds="$1"; par="${2:-2}"; shift 2 2>/dev/null
for s in $seeds; do VERIF_SEED=$s VERIF_OUTTAG=seed$s nice -n 10 ./runall.sh quick "$par" "$@"; done
