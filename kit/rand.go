//go:build verif

package verifkit

import (
	"encoding/hex"
	"math/rand/v2"
	"os"
	"strconv"
)

// Rand is a PCG stream seeded from VERIF_SEED.
type Rand struct{ *rand.Rand }

// Seed returns VERIF_SEED (default def).
func Seed(def int64) int64 {
	if s := os.Getenv("VERIF_SEED"); s != "" {
		if v, err := strconv.ParseInt(s, 10, 64); err == nil {
			return v
		}
	}
	return def
}

// NewRand returns a PCG stream for (seed, stream); distinct stream numbers
// give independent generators for sub-workloads.
func NewRand(seed int64, stream uint64) *Rand {
	return &Rand{rand.New(rand.NewPCG(uint64(seed), stream))}
}

func (r *Rand) Intn(n int) int { return r.IntN(n) }

// Pick returns a uniformly chosen element.
func Pick[T any](r *Rand, xs []T) T { return xs[r.IntN(len(xs))] }

// Chance is true with probability num/den.
func (r *Rand) Chance(num, den int) bool { return r.IntN(den) < num }

// Bytes returns n random bytes.
func (r *Rand) Bytes(n int) []byte {
	b := make([]byte, n)
	for i := range b {
		b[i] = byte(r.Uint32())
	}
	return b
}

// Canary returns a unique 24-char lower-case marker that never parses as a
// timestamp or number: "cnry" + 20 hex chars.
func (r *Rand) Canary() string { return "cnry" + hex.EncodeToString(r.Bytes(10)) }

// Tier is "quick" or "thorough" (VERIF_TIER).
func Tier() string {
	if os.Getenv("VERIF_TIER") == "thorough" {
		return "thorough"
	}
	return "quick"
}

// N picks a size by tier.
func N(quick, thorough int) int {
	if Tier() == "thorough" {
		return thorough
	}
	return quick
}

// OnlyCase returns the case selected for replay (VERIF_ONLY_CASE) or "".
func OnlyCase() string { return os.Getenv("VERIF_ONLY_CASE") }

// WantCase is true when no replay filter is set or id matches it.
func WantCase(id string) bool {
	oc := OnlyCase()
	return oc == "" || oc == id
}

// Shard returns (index, count) of this process among parallel shards of one
// check (VERIF_SHARD / VERIF_SHARDS); harnesses use index as an extra PRNG
// stream selector or to partition an enumeration.
func Shard() (int, int) {
	i, _ := strconv.Atoi(os.Getenv("VERIF_SHARD"))
	n, _ := strconv.Atoi(os.Getenv("VERIF_SHARDS"))
	if n < 1 {
		n = 1
	}
	return i, n
}
