//go:build verif

package verifkit

import (
	"crypto/sha256"
	"encoding/hex"
	"fmt"
	"sort"
	"strings"
	"sync"
	"time"
)

// Gate parks storage operations of tagged requests until the controller
// releases them, which yields interleavings at storage-operation granularity.
type Gate struct {
	mu      sync.Mutex
	active  map[string]bool
	parked  map[string]*parkedOp
	done    map[string]bool
	changed time.Time
	filter  func(Event) bool // nil = park everything
}

type parkedOp struct {
	ev      Event
	after   bool
	release chan struct{}
}

func (g *Gate) park(ev *Event, after bool) {
	g.mu.Lock()
	if !g.active[ev.Tag] || g.done[ev.Tag] {
		g.mu.Unlock()
		return
	}
	if g.filter != nil && !g.filter(*ev) {
		g.mu.Unlock()
		return
	}
	po := &parkedOp{ev: *ev, after: after, release: make(chan struct{})}
	g.parked[ev.Tag] = po
	g.changed = time.Now()
	g.mu.Unlock()
	<-po.release
}

// Req is one client request run under the gate.
type Req struct {
	Tag string
	Fn  func()
}

// Step is one scheduling decision.
type Step struct {
	Tag     string   `json:"tag"`
	Op      string   `json:"op"`
	Key     string   `json:"key"`
	After   bool     `json:"after,omitempty"` // parked after executing (lists)
	Enabled []string `json:"enabled"`
}

func (s Step) String() string {
	a := ""
	if s.After {
		a = "+"
	}
	return s.Tag + ":" + s.Op + a + ":" + s.Key
}

// Schedule is what the controller observed.
type Schedule struct {
	Steps    []Step `json:"steps"`
	Diverged bool   `json:"diverged,omitempty"` // a scripted choice was not enabled
	Blocked  int    `json:"blocked"`            // times a released request was judged blocked on a lock
	TimedOut bool   `json:"timed_out,omitempty"`
}

// Hash identifies the interleaving by the order of (tag, op) pairs with keys
// reduced to their first two path segments (uuid-free enough to compare).
func (s Schedule) Hash() string {
	h := sha256.New()
	for _, st := range s.Steps {
		fmt.Fprintf(h, "%s:%s:%v|", st.Tag, st.Op, st.After)
	}
	return hex.EncodeToString(h.Sum(nil)[:8])
}

// Choices returns the chosen tags in order.
func (s Schedule) Choices() []string {
	out := make([]string, len(s.Steps))
	for i, st := range s.Steps {
		out[i] = st.Tag
	}
	return out
}

// Overlap reports whether the schedule interleaved at least two tags (i.e. it
// is not a serial execution).
func (s Schedule) Overlap() bool {
	seenDone := map[string]bool{}
	last := ""
	for _, st := range s.Steps {
		if st.Tag != last {
			if seenDone[st.Tag] {
				return true
			}
			if last != "" {
				seenDone[last] = true
			}
			last = st.Tag
		}
	}
	return false
}

func (s Schedule) String() string {
	parts := make([]string, len(s.Steps))
	for i, st := range s.Steps {
		parts[i] = st.String()
	}
	return strings.Join(parts, " ")
}

// Policy picks the next request to release.
type Policy interface {
	Pick(step int, enabled []string, last string) (choice string, diverged bool)
}

// Script follows a list of choices, then runs non-preemptively (keeps the last
// request while it is enabled, else the first enabled in tag order).
type Script struct{ Choices []string }

func (s Script) Pick(step int, enabled []string, last string) (string, bool) {
	if step < len(s.Choices) {
		for _, e := range enabled {
			if e == s.Choices[step] {
				return e, false
			}
		}
		return defaultPick(enabled, last), true
	}
	return defaultPick(enabled, last), false
}

func defaultPick(enabled []string, last string) string {
	for _, e := range enabled {
		if e == last {
			return e
		}
	}
	return enabled[0]
}

// PCT is a priority scheduler with Depth-1 random priority change points
// (Burckhardt et al.), drawn from a seeded PRNG.
type PCT struct {
	prio    map[string]int
	changes map[int]bool
	rng     *Rand
	low     int
}

// NewPCT builds a PCT policy for the given tags, expecting about steps steps.
func NewPCT(rng *Rand, tags []string, depth, steps int) *PCT {
	p := &PCT{prio: map[string]int{}, changes: map[int]bool{}, rng: rng, low: 0}
	perm := rng.Perm(len(tags))
	for i, t := range tags {
		p.prio[t] = 100 + perm[i]
	}
	if steps < 1 {
		steps = 1
	}
	for i := 0; i < depth-1; i++ {
		p.changes[rng.Intn(steps)] = true
	}
	return p
}

func (p *PCT) Pick(step int, enabled []string, last string) (string, bool) {
	best := enabled[0]
	for _, e := range enabled[1:] {
		if p.prio[e] > p.prio[best] {
			best = e
		}
	}
	if p.changes[step] {
		p.low--
		p.prio[best] = p.low
		best = enabled[0]
		for _, e := range enabled[1:] {
			if p.prio[e] > p.prio[best] {
				best = e
			}
		}
	}
	return best, false
}

// RandomPolicy picks uniformly.
type RandomPolicy struct{ Rng *Rand }

func (r RandomPolicy) Pick(step int, enabled []string, last string) (string, bool) {
	return enabled[r.Rng.Intn(len(enabled))], false
}

// GateOpts tunes the controller.
type GateOpts struct {
	Grace    time.Duration    // a released request that neither parks nor finishes within Grace is judged blocked on a lock
	Hard     time.Duration    // watchdog for the whole run (inconclusive when it fires)
	Filter   func(Event) bool // only events for which Filter is true are gate points
	MaxSteps int
}

// RunGated runs the requests concurrently, releasing one parked storage
// operation at a time as chosen by pol.
func (p *Probe) RunGated(reqs []Req, pol Policy, opt GateOpts) Schedule {
	if opt.Grace == 0 {
		opt.Grace = 5 * time.Millisecond
	}
	if opt.Hard == 0 {
		opt.Hard = 60 * time.Second
	}
	if opt.MaxSteps == 0 {
		opt.MaxSteps = 5000
	}
	g := &Gate{active: map[string]bool{}, parked: map[string]*parkedOp{}, done: map[string]bool{}, filter: opt.Filter, changed: time.Now()}
	for _, r := range reqs {
		g.active[r.Tag] = true
	}
	p.gate.Store(g)
	var wg sync.WaitGroup
	for _, r := range reqs {
		wg.Add(1)
		go func(r Req) {
			defer wg.Done()
			p.Tag(r.Tag)
			defer func() {
				p.Untag()
				g.mu.Lock()
				g.done[r.Tag] = true
				g.changed = time.Now()
				g.mu.Unlock()
			}()
			r.Fn()
		}(r)
	}

	var sched Schedule
	start := time.Now()
	blocked := map[string]bool{}
	running := map[string]bool{} // released (or just started) and not yet parked/done
	for _, r := range reqs {
		running[r.Tag] = true
	}
	runSince := time.Now()
	last := ""
	const quiet = 300 * time.Microsecond
	for {
		// settle
		for {
			g.mu.Lock()
			for t := range running {
				if g.done[t] || g.parked[t] != nil {
					delete(running, t)
				}
			}
			for t := range blocked {
				if g.done[t] || g.parked[t] != nil {
					delete(blocked, t)
				}
			}
			changed := g.changed
			nparked := len(g.parked)
			alldone := len(g.done) == len(reqs)
			g.mu.Unlock()
			if alldone {
				break
			}
			now := time.Now()
			if len(running) > 0 && now.Sub(runSince) > opt.Grace {
				for t := range running {
					blocked[t] = true
					delete(running, t)
					sched.Blocked++
				}
			}
			if len(running) == 0 && nparked > 0 && (len(blocked) == 0 || now.Sub(changed) > quiet) {
				break
			}
			if now.Sub(start) > opt.Hard {
				sched.TimedOut = true
				break
			}
			time.Sleep(20 * time.Microsecond)
		}
		g.mu.Lock()
		if len(g.done) == len(reqs) || sched.TimedOut || len(sched.Steps) >= opt.MaxSteps {
			if len(sched.Steps) >= opt.MaxSteps {
				sched.TimedOut = true
			}
			g.mu.Unlock()
			break
		}
		enabled := make([]string, 0, len(g.parked))
		for t := range g.parked {
			enabled = append(enabled, t)
		}
		sort.Strings(enabled)
		choice, div := pol.Pick(len(sched.Steps), enabled, last)
		if div {
			sched.Diverged = true
		}
		po := g.parked[choice]
		delete(g.parked, choice)
		g.changed = time.Now()
		g.mu.Unlock()
		sched.Steps = append(sched.Steps, Step{Tag: choice, Op: po.ev.Op, Key: po.ev.Key, After: po.after, Enabled: enabled})
		last = choice
		running[choice] = true
		runSince = time.Now()
		close(po.release)
	}
	// Release everything and stop gating (also on watchdog expiry).
	g.mu.Lock()
	for t := range g.active {
		g.done[t] = true
	}
	for t, po := range g.parked {
		close(po.release)
		delete(g.parked, t)
	}
	g.mu.Unlock()
	p.gate.Store(nil)
	wg.Wait()
	return sched
}

// Preemptions counts the context switches away from a still-enabled request.
func Preemptions(steps []Step) int {
	n := 0
	for i := 1; i < len(steps); i++ {
		if steps[i].Tag != steps[i-1].Tag {
			for _, e := range steps[i].Enabled {
				if e == steps[i-1].Tag {
					n++
					break
				}
			}
		}
	}
	return n
}

// Explorer enumerates schedules depth-first under a preemption bound. Each
// call of run must rebuild the scenario from scratch and execute it under the
// given policy.
type Explorer struct {
	MaxPreempt int
	MaxRuns    int
	seen       map[string]bool
	queue      [][]string
	Runs       int
	Hashes     map[string]bool
}

// Explore runs run(script) for the empty script and then for every
// alternative choice at every step of every schedule seen, within bounds.
// run returns false to stop the exploration.
func (e *Explorer) Explore(run func(pol Policy) (Schedule, bool)) {
	e.seen = map[string]bool{"": true}
	e.Hashes = map[string]bool{}
	e.queue = [][]string{nil}
	for len(e.queue) > 0 && (e.MaxRuns == 0 || e.Runs < e.MaxRuns) {
		// depth-first: take the most recent
		script := e.queue[len(e.queue)-1]
		e.queue = e.queue[:len(e.queue)-1]
		sched, cont := run(Script{Choices: script})
		e.Runs++
		e.Hashes[sched.Hash()] = true
		if !cont {
			return
		}
		if sched.Diverged {
			continue
		}
		for i := len(script); i < len(sched.Steps); i++ {
			st := sched.Steps[i]
			for _, alt := range st.Enabled {
				if alt == st.Tag {
					continue
				}
				ns := append(append([]string(nil), sched.Choices()[:i]...), alt)
				key := strings.Join(ns, ",")
				if e.seen[key] {
					continue
				}
				// preemption count of prefix + alt
				pre := Preemptions(sched.Steps[:i])
				if i > 0 {
					for _, en := range st.Enabled {
						if en == sched.Steps[i-1].Tag && alt != en {
							pre++
							break
						}
					}
				}
				if pre > e.MaxPreempt {
					continue
				}
				e.seen[key] = true
				e.queue = append(e.queue, ns)
			}
		}
	}
}
