//go:build verif

package verifkit

import (
	"crypto/sha256"
	"encoding/json"
	"fmt"
	"os"
	"path/filepath"
	"sort"
	"sync"
	"time"
)

// Violation is an oracle firing with its witness.
type Violation struct {
	Class   string `json:"class"` // classification; known-finding signatures match on this
	What    string `json:"what"`
	Case    string `json:"case,omitempty"` // id accepted by VERIF_ONLY_CASE for replay
	Test    string `json:"test,omitempty"`
	Witness any    `json:"witness,omitempty"`
}

// Result is what one harness test reports to /verif/check.
type Result struct {
	mu sync.Mutex

	Name         string           `json:"name"`
	TestFunc     string           `json:"test_func"`
	Seed         int64            `json:"seed"`
	Tier         string           `json:"tier"`
	Evaluations  int64            `json:"evaluations"`
	Distinct     int64            `json:"distinct_nontrivial"`
	Rule         string           `json:"rule"`
	Exhaustive   bool             `json:"exhaustive,omitempty"`
	Samples      []any            `json:"samples"`
	Counters     map[string]int64 `json:"counters"`
	Assumptions  []string         `json:"assumptions,omitempty"`
	Notes        []string         `json:"notes,omitempty"`
	Violations   []Violation      `json:"violations"`
	Inconclusive []string         `json:"inconclusive,omitempty"`
	WallS        float64          `json:"wall_s"`
	Complete     bool             `json:"complete"`

	distinct   map[[12]byte]struct{}
	maxSamples int
	start      time.Time
	vioSeen    map[string]int
}

// NewResult starts a result named name (file result-<name>.json).
func NewResult(t interface{ Name() string }, name string, seed int64, rule string) *Result {
	return &Result{Name: name, TestFunc: t.Name(), Seed: seed, Tier: Tier(), Rule: rule, Counters: map[string]int64{},
		distinct: map[[12]byte]struct{}{}, maxSamples: 6, start: time.Now(), vioSeen: map[string]int{}}
}

// Eval counts n executed cases.
func (r *Result) Eval(n int) {
	r.mu.Lock()
	r.Evaluations += int64(n)
	r.mu.Unlock()
}

// Nontrivial records a case that is non-trivial by the harness's rule; key
// identifies it for de-duplication. Returns true if it was new.
func (r *Result) Nontrivial(key string) bool {
	h := sha256.Sum256([]byte(key))
	var k [12]byte
	copy(k[:], h[:12])
	r.mu.Lock()
	defer r.mu.Unlock()
	if _, ok := r.distinct[k]; ok {
		return false
	}
	r.distinct[k] = struct{}{}
	r.Distinct++
	return true
}

// Count adds n to a named counter.
func (r *Result) Count(name string, n int) {
	r.mu.Lock()
	r.Counters[name] += int64(n)
	r.mu.Unlock()
}

// Get reads a counter.
func (r *Result) Get(name string) int64 {
	r.mu.Lock()
	defer r.mu.Unlock()
	return r.Counters[name]
}

// Sample keeps the first few cases written out.
func (r *Result) Sample(v any) {
	r.mu.Lock()
	if len(r.Samples) < r.maxSamples {
		r.Samples = append(r.Samples, v)
	}
	r.mu.Unlock()
}

// Note records an observation that is not a verdict.
func (r *Result) Note(format string, a ...any) {
	r.mu.Lock()
	if len(r.Notes) < 40 {
		r.Notes = append(r.Notes, fmt.Sprintf(format, a...))
	}
	r.mu.Unlock()
}

// Assume records a trusted assumption.
func (r *Result) Assume(s string) {
	r.mu.Lock()
	r.Assumptions = append(r.Assumptions, s)
	r.mu.Unlock()
}

// Violate records an oracle firing. At most 5 witnesses per class are kept.
func (r *Result) Violate(class, caseID, what string, witness any) {
	r.mu.Lock()
	defer r.mu.Unlock()
	r.vioSeen[class]++
	r.Counters["violations:"+class]++
	if r.vioSeen[class] > 5 {
		return
	}
	r.Violations = append(r.Violations, Violation{Class: class, What: what, Case: caseID, Test: r.Name, Witness: witness})
}

// NViolations returns the number of violations recorded (all classes).
func (r *Result) NViolations() int {
	r.mu.Lock()
	defer r.mu.Unlock()
	n := 0
	for _, c := range r.vioSeen {
		n += c
	}
	return n
}

// Inconc records an inconclusive outcome (watchdog, checker timeout...).
func (r *Result) Inconc(format string, a ...any) {
	r.mu.Lock()
	if len(r.Inconclusive) < 20 {
		r.Inconclusive = append(r.Inconclusive, fmt.Sprintf(format, a...))
	}
	r.mu.Unlock()
}

// Require demands a minimum observation count; fewer means inconclusive.
// Skipped while replaying a single case.
func (r *Result) Require(counter string, min int64) {
	if OnlyCase() != "" {
		return
	}
	// Harness authors set minimums at roughly half of what one seed showed; seed-to-seed
	// variation must not turn a sound run into an inconclusive one, so the floor actually
	// enforced is a third of the stated value (at least 1): it still proves the oracle was
	// exercised, which is what Require is for.
	eff := min / 3
	if eff < 1 {
		eff = 1
	}
	if v := r.Get(counter); v < eff {
		r.Inconc("counter %s = %d < required %d (stated %d; monitor did not observe enough)", counter, v, eff, min)
	}
}

// TB is the subset of testing.TB used.
type TB interface {
	Logf(format string, args ...any)
	Errorf(format string, args ...any)
}

// Write stores the result where /verif/check collects it.
func (r *Result) Write(t TB) {
	r.mu.Lock()
	defer r.mu.Unlock()
	r.Complete = true
	r.WallS = time.Since(r.start).Seconds()
	// A monitor whose test function failed (t.Fatalf / t.Errorf of the harness itself, a
	// panic recovered by the testing package) without recording a violation did not decide
	// anything: that is a broken or inconclusive run, never "held".
	if f, ok := t.(interface{ Failed() bool }); ok && f.Failed() && len(r.Violations) == 0 && len(r.Inconclusive) == 0 {
		r.Inconclusive = append(r.Inconclusive, "the monitor's test function failed without recording a violation (harness error, see test.log)")
	}
	if r.Samples == nil {
		r.Samples = []any{}
	}
	if r.Violations == nil {
		r.Violations = []Violation{}
	}
	dir := os.Getenv("VERIF_OUT")
	if dir == "" {
		dir = os.TempDir()
	}
	_ = os.MkdirAll(dir, 0o755)
	b, err := json.MarshalIndent(r, "", " ")
	if err != nil {
		t.Errorf("verif: cannot marshal result: %v", err)
		return
	}
	path := filepath.Join(dir, "result-"+r.Name+".json")
	if err := os.WriteFile(path, b, 0o644); err != nil {
		t.Errorf("verif: cannot write result: %v", err)
	}
	keys := make([]string, 0, len(r.Counters))
	for k := range r.Counters {
		keys = append(keys, k)
	}
	sort.Strings(keys)
	t.Logf("verif result %s: evaluations=%d distinct=%d violations=%d inconclusive=%d", r.Name, r.Evaluations, r.Distinct, len(r.Violations), len(r.Inconclusive))
	for _, k := range keys {
		t.Logf("  %s = %d", k, r.Counters[k])
	}
	for _, v := range r.Violations {
		t.Logf("  VIOLATION[%s] case=%s: %s", v.Class, v.Case, v.What)
	}
	for _, v := range r.Inconclusive {
		t.Logf("  INCONCLUSIVE: %s", v)
	}
}
