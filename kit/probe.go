//go:build verif

// Package verifkit is the shared runtime-monitoring kit: a probe physical
// backend (log / tag / fault / journal / gate), a schedule controller, a
// seeded PRNG and a result writer. It is overlaid into the sdk module as
// sdk/helper/verifkit by /verif/check and never exists on disk in /repo.
package verifkit

import (
	"bytes"
	"context"
	"crypto/sha256"
	"encoding/hex"
	"errors"
	"fmt"
	"runtime"
	"sort"
	"strconv"
	"strings"
	"sync"
	"sync/atomic"

	"github.com/openbao/openbao/sdk/v2/physical"
	"github.com/openbao/openbao/sdk/v2/physical/inmem"
)

// ErrInjected is the error returned by an injected storage fault.
var ErrInjected = errors.New("verif: injected storage fault")

// Event is one observed physical operation.
type Event struct {
	Seq    uint64   `json:"seq"`
	Tag    string   `json:"tag,omitempty"`
	Txn    int      `json:"txn,omitempty"` // 0 = plain op, otherwise transaction number
	Op     string   `json:"op"`            // get put delete list listpage begin beginro commit rollback
	Key    string   `json:"key"`
	After  string   `json:"after,omitempty"`
	Limit  int      `json:"limit,omitempty"`
	ValLen int      `json:"vlen,omitempty"`
	ValSHA string   `json:"vsha,omitempty"`
	Err    string   `json:"err,omitempty"`
	Found  bool     `json:"found,omitempty"`
	Names  []string `json:"names,omitempty"`
	Caller string   `json:"caller,omitempty"`
}

func (e Event) String() string {
	s := fmt.Sprintf("#%d[%s", e.Seq, e.Tag)
	if e.Txn != 0 {
		s += fmt.Sprintf("/tx%d", e.Txn)
	}
	s += "] " + e.Op + " " + e.Key
	if e.Err != "" {
		s += " !" + e.Err
	}
	return s
}

// IsWrite reports whether the event mutates the store.
func (e Event) IsWrite() bool {
	return e.Op == "put" || e.Op == "delete" || e.Op == "commit"
}

// Mutation is one durable change (a plain put/delete, or the write set of a
// committed transaction which becomes durable atomically).
type Mutation struct {
	Seq    uint64
	Tag    string
	Writes []Write
}

type Write struct {
	Key    string
	Value  []byte // nil for delete
	Delete bool
}

// Probe is the shared state of a probe backend and all its transactions.
type Probe struct {
	inner   physical.Backend
	innerTx physical.Transactional

	seq atomic.Uint64
	txn atomic.Int64

	mu        sync.Mutex
	logging   bool
	log       []Event
	callers   bool
	tags      map[uint64]string
	journal   []Mutation
	journalOn bool
	baseline  map[string][]byte
	faults    []*fault
	alias     map[string]string

	gate atomic.Pointer[Gate]
}

type fault struct {
	pred   func(Event) bool
	n      int
	err    error
	seen   int
	fired  bool
	repeat bool
}

// ProbeBackend is a non-transactional probe.
type ProbeBackend struct{ *Probe }

// TxProbeBackend is a transactional probe.
type TxProbeBackend struct{ *Probe }

var (
	_ physical.Backend              = (*ProbeBackend)(nil)
	_ physical.TransactionalBackend = (*TxProbeBackend)(nil)
)

// NewInmemProbe builds a probe over a fresh in-memory backend. The returned
// backend implements physical.TransactionalBackend iff transactional is true.
func NewInmemProbe(transactional bool) (physical.Backend, *Probe) {
	conf := map[string]string{}
	if !transactional {
		conf["disable_transactions"] = "true"
	}
	in, err := inmem.NewInmem(conf, nil)
	if err != nil {
		panic(err)
	}
	return NewProbe(in)
}

// NewProbe wraps inner. Transactional iff inner is.
func NewProbe(inner physical.Backend) (physical.Backend, *Probe) {
	p := &Probe{inner: inner, tags: map[uint64]string{}}
	if tx, ok := inner.(physical.Transactional); ok {
		p.innerTx = tx
		return &TxProbeBackend{p}, p
	}
	return &ProbeBackend{p}, p
}

// Inner returns the wrapped backend.
func (p *Probe) Inner() physical.Backend { return p.inner }

// ---------------------------------------------------------------- tagging

// GoID returns the current goroutine id.
func GoID() uint64 {
	var buf [64]byte
	n := runtime.Stack(buf[:], false)
	// "goroutine 123 ["
	s := buf[10:n]
	i := bytes.IndexByte(s, ' ')
	if i < 0 {
		return 0
	}
	id, _ := strconv.ParseUint(string(s[:i]), 10, 64)
	return id
}

// Tag binds the calling goroutine to a request tag until Untag.
func (p *Probe) Tag(name string) {
	id := GoID()
	p.mu.Lock()
	p.tags[id] = name
	p.mu.Unlock()
}

// Untag removes the calling goroutine's tag.
func (p *Probe) Untag() {
	id := GoID()
	p.mu.Lock()
	delete(p.tags, id)
	p.mu.Unlock()
}

func (p *Probe) curTag() string {
	id := GoID()
	p.mu.Lock()
	t := p.tags[id]
	p.mu.Unlock()
	return t
}

// ---------------------------------------------------------------- logging

// StartLog clears and enables the op log. withCallers records the innermost
// caller outside the storage layers (slower).
func (p *Probe) StartLog(withCallers bool) {
	p.mu.Lock()
	p.log = nil
	p.logging = true
	p.callers = withCallers
	p.mu.Unlock()
}

// StopLog disables logging and returns the log.
func (p *Probe) StopLog() []Event {
	p.mu.Lock()
	defer p.mu.Unlock()
	p.logging = false
	l := p.log
	p.log = nil
	return l
}

// Log returns a copy of the log so far.
func (p *Probe) Log() []Event {
	p.mu.Lock()
	defer p.mu.Unlock()
	return append([]Event(nil), p.log...)
}

// LogLen returns the number of events logged so far.
func (p *Probe) LogLen() int {
	p.mu.Lock()
	defer p.mu.Unlock()
	return len(p.log)
}

// NextSeq hands out the shared monotone counter (used to order harness events
// with storage events).
func (p *Probe) NextSeq() uint64 { return p.seq.Add(1) }

// ---------------------------------------------------------------- faults

// FailNth makes the n-th (1-based) future operation matching pred fail once
// with ErrInjected. The operation is not executed.
func (p *Probe) FailNth(pred func(Event) bool, n int) {
	p.mu.Lock()
	p.faults = append(p.faults, &fault{pred: pred, n: n, err: ErrInjected})
	p.mu.Unlock()
}

// FailAll makes every future operation matching pred fail until ClearFaults.
func (p *Probe) FailAll(pred func(Event) bool) {
	p.mu.Lock()
	p.faults = append(p.faults, &fault{pred: pred, n: 1, err: ErrInjected, repeat: true})
	p.mu.Unlock()
}

// ClearFaults removes all faults and reports how many fired.
func (p *Probe) ClearFaults() (fired int) {
	p.mu.Lock()
	defer p.mu.Unlock()
	for _, f := range p.faults {
		if f.fired {
			fired++
		}
	}
	p.faults = nil
	return fired
}

func (p *Probe) checkFault(ev Event) error {
	p.mu.Lock()
	defer p.mu.Unlock()
	for _, f := range p.faults {
		if f.fired && !f.repeat {
			continue
		}
		if f.pred != nil && !f.pred(ev) {
			continue
		}
		f.seen++
		if f.seen >= f.n {
			f.fired = true
			return f.err
		}
	}
	return nil
}

// ---------------------------------------------------------------- journal

// StartJournal snapshots the store as baseline and records every later
// durable mutation in order.
func (p *Probe) StartJournal() {
	snap := p.Snapshot()
	p.mu.Lock()
	p.baseline = snap
	p.journal = nil
	p.journalOn = true
	p.mu.Unlock()
}

// StopJournal stops recording and returns the journal.
func (p *Probe) StopJournal() []Mutation {
	p.mu.Lock()
	defer p.mu.Unlock()
	p.journalOn = false
	return p.journal
}

// Journal returns a copy of the journal so far.
func (p *Probe) Journal() []Mutation {
	p.mu.Lock()
	defer p.mu.Unlock()
	return append([]Mutation(nil), p.journal...)
}

func (p *Probe) journalAdd(tag string, seq uint64, ws []Write) {
	p.mu.Lock()
	if p.journalOn {
		p.journal = append(p.journal, Mutation{Seq: seq, Tag: tag, Writes: ws})
	}
	p.mu.Unlock()
}

// Materialise returns a fresh in-memory backend holding the journal baseline
// plus the first k mutations: the store as a crash after k durable writes
// would leave it.
func (p *Probe) Materialise(k int, transactional bool) physical.Backend {
	p.mu.Lock()
	base := p.baseline
	j := p.journal
	p.mu.Unlock()
	conf := map[string]string{}
	if !transactional {
		conf["disable_transactions"] = "true"
	}
	in, err := inmem.NewInmem(conf, nil)
	if err != nil {
		panic(err)
	}
	ctx := context.Background()
	for key, v := range base {
		if err := in.Put(ctx, &physical.Entry{Key: key, Value: append([]byte(nil), v...)}); err != nil {
			panic(err)
		}
	}
	if k > len(j) {
		k = len(j)
	}
	for _, m := range j[:k] {
		for _, w := range m.Writes {
			if w.Delete {
				_ = in.Delete(ctx, w.Key)
			} else {
				_ = in.Put(ctx, &physical.Entry{Key: w.Key, Value: append([]byte(nil), w.Value...)})
			}
		}
	}
	return in
}

// Snapshot dumps every key and value of the inner store.
func (p *Probe) Snapshot() map[string][]byte {
	out := map[string][]byte{}
	ctx := context.Background()
	var walk func(prefix string)
	walk = func(prefix string) {
		names, err := p.inner.List(ctx, prefix)
		if err != nil {
			panic(err)
		}
		for _, n := range names {
			if strings.HasSuffix(n, "/") {
				walk(prefix + n)
				continue
			}
			e, err := p.inner.Get(ctx, prefix+n)
			if err != nil {
				panic(err)
			}
			if e != nil {
				out[prefix+n] = append([]byte(nil), e.Value...)
			}
		}
	}
	walk("")
	return out
}

// Keys returns the sorted keys of the inner store under prefix.
func (p *Probe) Keys(prefix string) []string {
	var ks []string
	for k := range p.Snapshot() {
		if strings.HasPrefix(k, prefix) {
			ks = append(ks, k)
		}
	}
	sort.Strings(ks)
	return ks
}

// ---------------------------------------------------------------- ops

func sha(v []byte) string {
	h := sha256.Sum256(v)
	return hex.EncodeToString(h[:8])
}

var skipCallerSubstr = []string{
	"/sdk/v2/physical", "/helper/verifkit", "/vault/barrier", "sdk/v2/logical.(*StorageView)",
	"sdk/v2/logical.(*logicalStorage", "sdk/v2/logical.(*TransactionalStorageView", "sdk/v2/logical.(*transactionalStorageView",
	"runtime.", "sdk/v2/logical.StorageEntryJSON", "sdk/v2/logical.(*storageView)", "sdk/v2/logical.(*transactionalStorageView)", "sdk/v2/logical.(*storageViewTransaction)",
}

func callerName() string {
	pcs := make([]uintptr, 40)
	n := runtime.Callers(3, pcs)
	fr := runtime.CallersFrames(pcs[:n])
	for {
		f, more := fr.Next()
		skip := false
		for _, s := range skipCallerSubstr {
			if strings.Contains(f.Function, s) {
				skip = true
				break
			}
		}
		if !skip && f.Function != "" {
			return f.Function
		}
		if !more {
			return ""
		}
	}
}

// pre builds the event, applies gate (parking before execution) and faults.
func (p *Probe) pre(txn int, op, key string) (Event, error) {
	ev := Event{Tag: p.curTag(), Txn: txn, Op: op, Key: key}
	if g := p.gate.Load(); g != nil && ev.Tag != "" {
		g.park(&ev, false)
	}
	ev.Seq = p.seq.Add(1)
	if err := p.checkFault(ev); err != nil {
		ev.Err = err.Error()
		p.record(ev)
		return ev, err
	}
	return ev, nil
}

func (p *Probe) record(ev Event) {
	p.mu.Lock()
	if p.logging {
		if p.callers {
			ev.Caller = callerName()
		}
		p.log = append(p.log, ev)
	}
	p.mu.Unlock()
}

func (p *Probe) post(ev Event, err error) {
	if err != nil {
		ev.Err = err.Error()
	}
	p.record(ev)
	// lists park after the result was taken ("listed, then the world changed")
	if ev.Op == "list" || ev.Op == "listpage" {
		if g := p.gate.Load(); g != nil && ev.Tag != "" {
			g.park(&ev, true)
		}
	}
}

func (p *Probe) doPut(ctx context.Context, b physical.Backend, txn int, e *physical.Entry) error {
	ev, err := p.pre(txn, "put", e.Key)
	if err != nil {
		return err
	}
	ev.ValLen = len(e.Value)
	ev.ValSHA = sha(e.Value)
	val := append([]byte(nil), e.Value...)
	err = b.Put(ctx, e)
	if err == nil && txn == 0 {
		p.journalAdd(ev.Tag, ev.Seq, []Write{{Key: e.Key, Value: val}})
	}
	p.post(ev, err)
	return err
}

// Alias makes Get(key) answer with the complete entry stored under source - value AND entry
// key - as a misbehaving or hostile physical backend could (record relocation at the entry
// level, as opposed to planting the bytes under the other key). Unalias(key) ends it.
func (p *Probe) Alias(key, source string) {
	p.mu.Lock()
	if p.alias == nil {
		p.alias = map[string]string{}
	}
	p.alias[key] = source
	p.mu.Unlock()
}

func (p *Probe) Unalias(key string) {
	p.mu.Lock()
	delete(p.alias, key)
	p.mu.Unlock()
}

func (p *Probe) aliasOf(key string) string {
	p.mu.Lock()
	defer p.mu.Unlock()
	return p.alias[key]
}

func (p *Probe) doGet(ctx context.Context, b physical.Backend, txn int, key string) (*physical.Entry, error) {
	ev, err := p.pre(txn, "get", key)
	if err != nil {
		return nil, err
	}
	src := key
	if a := p.aliasOf(key); a != "" {
		src = a // hostile backend: answers with the whole entry it holds for another key (entry key included)
	}
	e, err := b.Get(ctx, src)
	if e != nil {
		ev.Found = true
		ev.ValLen = len(e.Value)
		ev.ValSHA = sha(e.Value)
	}
	p.post(ev, err)
	return e, err
}

func (p *Probe) doDelete(ctx context.Context, b physical.Backend, txn int, key string) error {
	ev, err := p.pre(txn, "delete", key)
	if err != nil {
		return err
	}
	err = b.Delete(ctx, key)
	if err == nil && txn == 0 {
		p.journalAdd(ev.Tag, ev.Seq, []Write{{Key: key, Delete: true}})
	}
	p.post(ev, err)
	return err
}

func (p *Probe) doList(ctx context.Context, b physical.Backend, txn int, prefix string) ([]string, error) {
	ev, err := p.pre(txn, "list", prefix)
	if err != nil {
		return nil, err
	}
	names, err := b.List(ctx, prefix)
	ev.Names = append([]string(nil), names...)
	p.post(ev, err)
	return names, err
}

func (p *Probe) doListPage(ctx context.Context, b physical.Backend, txn int, prefix, after string, limit int) ([]string, error) {
	ev, err := p.pre(txn, "listpage", prefix)
	if err != nil {
		return nil, err
	}
	ev.After, ev.Limit = after, limit
	names, err := b.ListPage(ctx, prefix, after, limit)
	ev.Names = append([]string(nil), names...)
	p.post(ev, err)
	return names, err
}

func (b *ProbeBackend) Put(ctx context.Context, e *physical.Entry) error {
	return b.doPut(ctx, b.inner, 0, e)
}
func (b *ProbeBackend) Get(ctx context.Context, k string) (*physical.Entry, error) {
	return b.doGet(ctx, b.inner, 0, k)
}
func (b *ProbeBackend) Delete(ctx context.Context, k string) error {
	return b.doDelete(ctx, b.inner, 0, k)
}
func (b *ProbeBackend) List(ctx context.Context, p string) ([]string, error) {
	return b.doList(ctx, b.inner, 0, p)
}
func (b *ProbeBackend) ListPage(ctx context.Context, p, a string, l int) ([]string, error) {
	return b.doListPage(ctx, b.inner, 0, p, a, l)
}

func (b *TxProbeBackend) Put(ctx context.Context, e *physical.Entry) error {
	return b.doPut(ctx, b.inner, 0, e)
}
func (b *TxProbeBackend) Get(ctx context.Context, k string) (*physical.Entry, error) {
	return b.doGet(ctx, b.inner, 0, k)
}
func (b *TxProbeBackend) Delete(ctx context.Context, k string) error {
	return b.doDelete(ctx, b.inner, 0, k)
}
func (b *TxProbeBackend) List(ctx context.Context, p string) ([]string, error) {
	return b.doList(ctx, b.inner, 0, p)
}
func (b *TxProbeBackend) ListPage(ctx context.Context, p, a string, l int) ([]string, error) {
	return b.doListPage(ctx, b.inner, 0, p, a, l)
}

func (b *TxProbeBackend) begin(ctx context.Context, ro bool) (physical.Transaction, error) {
	op := "begin"
	if ro {
		op = "beginro"
	}
	id := int(b.txn.Add(1))
	ev, err := b.pre(id, op, "")
	if err != nil {
		return nil, err
	}
	var tx physical.Transaction
	if ro {
		tx, err = b.innerTx.BeginReadOnlyTx(ctx)
	} else {
		tx, err = b.innerTx.BeginTx(ctx)
	}
	b.post(ev, err)
	if err != nil {
		return nil, err
	}
	return &probeTx{p: b.Probe, tx: tx, id: id, ro: ro}, nil
}

func (b *TxProbeBackend) BeginTx(ctx context.Context) (physical.Transaction, error) {
	return b.begin(ctx, false)
}

func (b *TxProbeBackend) BeginReadOnlyTx(ctx context.Context) (physical.Transaction, error) {
	return b.begin(ctx, true)
}

type probeTx struct {
	p      *Probe
	tx     physical.Transaction
	id     int
	ro     bool
	mu     sync.Mutex
	writes []Write
}

var _ physical.Transaction = (*probeTx)(nil)

func (t *probeTx) Put(ctx context.Context, e *physical.Entry) error {
	val := append([]byte(nil), e.Value...)
	key := e.Key
	err := t.p.doPut(ctx, t.tx, t.id, e)
	if err == nil {
		t.mu.Lock()
		t.writes = append(t.writes, Write{Key: key, Value: val})
		t.mu.Unlock()
	}
	return err
}

func (t *probeTx) Get(ctx context.Context, k string) (*physical.Entry, error) {
	return t.p.doGet(ctx, t.tx, t.id, k)
}

func (t *probeTx) Delete(ctx context.Context, k string) error {
	err := t.p.doDelete(ctx, t.tx, t.id, k)
	if err == nil {
		t.mu.Lock()
		t.writes = append(t.writes, Write{Key: k, Delete: true})
		t.mu.Unlock()
	}
	return err
}

func (t *probeTx) List(ctx context.Context, p string) ([]string, error) {
	return t.p.doList(ctx, t.tx, t.id, p)
}

func (t *probeTx) ListPage(ctx context.Context, p, a string, l int) ([]string, error) {
	return t.p.doListPage(ctx, t.tx, t.id, p, a, l)
}

func (t *probeTx) Commit(ctx context.Context) error {
	ev, err := t.p.pre(t.id, "commit", "")
	if err != nil {
		// an injected commit fault aborts the transaction
		_ = t.tx.Rollback(ctx)
		return err
	}
	err = t.tx.Commit(ctx)
	if err == nil && !t.ro {
		t.mu.Lock()
		ws := t.writes
		t.mu.Unlock()
		if len(ws) > 0 {
			t.p.journalAdd(ev.Tag, ev.Seq, ws)
		}
	}
	t.p.post(ev, err)
	return err
}

func (t *probeTx) Rollback(ctx context.Context) error {
	ev := Event{Tag: t.p.curTag(), Txn: t.id, Op: "rollback", Seq: t.p.seq.Add(1)}
	err := t.tx.Rollback(ctx)
	t.p.post(ev, err)
	return err
}
