#!/usr/bin/env python3
"""Rewrites DESIGN.md §7.5 (which check catches which seeded change) from seeded/*/meta.json and out/mutcheck.log."""
import json, glob, os, re
V=os.path.dirname(os.path.abspath(__file__))
rows=[]
for d in sorted(glob.glob(os.path.join(V,'seeded','*'))):
    mp=os.path.join(d,'meta.json')
    if not os.path.exists(mp): continue
    m=json.load(open(mp)); c=m.get('confirmed_by_lead',{})
    name=os.path.basename(d)
    res=c.get('checks_against_patch','')
    first=re.findall(r'(C\d+):rc=(\d+)', res)
    classes=sorted(set(re.findall(r'\[(C\d+-[A-Za-z0-9_.-]+)\]', res)))
    checks=first
    now=m.get('checks_now',{}).get('results')
    if now and 'error' not in now:
        # result with the machinery as committed (reseed.py); the first result is kept in meta.json
        merged=dict(first)
        cl=set()
        for cid,rr in now.items():
            merged[cid]=str(rr['rc']); cl.update(rr.get('classes',{}).keys())
        for cid,rc in first:
            if cid not in now and rc=='1': cl.update(x for x in classes if x.startswith(cid+'-'))
        checks=sorted(merged.items()); classes=sorted(cl)
    def word(rc): return 'exit 1' if rc=='1' else ('exit 0 (missed)' if rc=='0' else 'exit '+rc)
    verdict='; '.join('%s %s'%(cid,word(rc)) for cid,rc in checks)
    firstv='; '.join('%s %s'%(cid,word(rc)) for cid,rc in first)
    if firstv!=verdict: verdict+=' (first run: '+firstv+')'
    summ=m.get('summary','').replace('|','\\|').replace('\n',' ')
    needs=m.get('needs_to_manifest','').replace('|','\\|').replace('\n',' ')
    if len(summ)>260: summ=summ[:257]+'...'
    if len(needs)>200: needs=needs[:197]+'...'
    rows.append("| `%s` | %s | %s | %s | %s |"%(name,summ,needs,verdict,', '.join('`%s`'%x for x in classes[:4])))
sm=[]; latest={}
p=os.path.join(V,'selfmut','results.log')
if os.path.exists(p):
    for l in open(p):
        m=re.match(r'\S+ (C\d+) selfmut/(\S+)\.diff rc=(\d+) (\d+) violations; classes:(.*)',l)
        if m: latest[m.group(2)]=("| `selfmut/%s.diff` | %s | exit %s | %s |"%(m.group(2),m.group(1),m.group(3),', '.join('`%s`'%x for x in sorted(set(re.findall(r'\[(C\d+-[A-Za-z0-9_.-]+)\]',m.group(5))))[:4])))
out=["### 7.5 Which checks catch which seeded changes\n",
"Independent sub-agents were given only the text of one property and a scratch worktree (nothing from /verif) and asked for two realistic changes each that break the property, compile, pass the existing tests and need something specific to manifest, with a demonstration. Each was confirmed by `seedcheck.sh` in a fresh scratch worktree (demonstration passes on the unchanged tree, fails with the patch; the existing tests named in meta.json pass with the patch), then the quick check of that property was run against the patched worktree (`VERIF_REPO=<worktree> ./check <ID> quick`). Rounds: `<ID>-m<k>` (round 1), `<ID>-r2m<k>`, `<ID>-r3m<k>` (later rounds; the agents were additionally given one-line summaries of the earlier changes for their property so as not to repeat them). Kept changes are in `/verif/seeded/<name>/` (patch.diff, demo_test.go, meta.json with what was run). The table shows the result with the machinery as committed; where a change was first missed, the strengthening is described in §7.6.\n",
"| seeded change | what it does | needs to manifest | quick check result | classes that fired |","|---|---|---|---|---|"]+rows
NOTE={'C05-revert-F58':'not caught deterministically: the window is a few instructions wide (distributor past its check, all workers gone); the monitor bounds the unseal and reports `C05-lease-restore-hangs-after-read-fault` when it happens (witness: findings/F58-restore-hang.txt)'}
for k,v in NOTE.items():
    if k in latest and latest[k].rstrip().endswith('|  |'):
        latest[k]=latest[k].rstrip()[:-3]+v+' |'
out+=["","Patches written by the lead or by harness builders to validate monitors (`selfmut/`, applied with `mutcheck.sh`; builders' own mutation tables are in their harness reports summarised in §7.7):\n","| patch | property | result | classes |","|---|---|---|---|"]+[latest[k] for k in sorted(latest)]+[""]
p=os.path.join(V,'DESIGN.md'); s=open(p).read()
if "<!-- SEEDED-BEGIN -->" not in s:
    marker="## 5. What this family cannot decide here (stated limits)"
    s=s.replace(marker,"<!-- SEEDED-BEGIN -->\n<!-- SEEDED-END -->\n\n"+marker)
a=s.index("<!-- SEEDED-BEGIN -->")+len("<!-- SEEDED-BEGIN -->\n"); b=s.index("<!-- SEEDED-END -->")
s=s[:a]+"\n".join(out)+"\n"+s[b:]
open(p,'w').write(s)
print(len(rows),'seeded rows',len(latest),'selfmut rows')
