#!/usr/bin/env python3
"""Rewrites DESIGN.md §7.5 (which check catches which seeded change) from seeded/*/meta.json and out/mutcheck.log."""
import json, glob, os, re
V=os.path.dirname(os.path.abspath(__file__))
rows=[]
for d in sorted(glob.glob(os.path.join(V,'seeded','*'))):
    mp=os.path.join(d,'meta.json')
    if not os.path.exists(mp): continue
    m=json.load(open(mp)); c=m.get('confirmed_by_lead',{})
    name=os.path.basename(d)
    res=c.get('checks_against_patch','')
    caught=[]
    for part in re.findall(r'(C\d+):rc=(\d+)\[([^\]]*(?:\][^\]]*)*?)\s*\](?=\s|$)', res+' '):
        pass
    checks=re.findall(r'(C\d+):rc=(\d+)', res)
    classes=sorted(set(re.findall(r'\[(C\d+-[A-Za-z0-9_.-]+)\]', res)))
    verdict='; '.join('%s %s'%(cid,'exit 1' if rc=='1' else ('exit 0 (missed)' if rc=='0' else 'exit '+rc)) for cid,rc in checks)
    summ=m.get('summary','').replace('|','\\|').replace('\n',' ')
    needs=m.get('needs_to_manifest','').replace('|','\\|').replace('\n',' ')
    if len(summ)>260: summ=summ[:257]+'...'
    if len(needs)>200: needs=needs[:197]+'...'
    rows.append("| `%s` | %s | %s | %s | %s |"%(name,summ,needs,verdict,', '.join('`%s`'%x for x in classes[:4])))
sm=[]
p=os.path.join(V,'out','mutcheck.log')
if os.path.exists(p):
    for l in open(p):
        m=re.match(r'\S+ (C\d+) (\S+)\.diff rc=(\d+) (\d+) violations; classes:(.*)',l)
        if m: sm.append("| `selfmut/%s.diff` | %s | exit %s | %s |"%(m.group(2),m.group(1),m.group(3),', '.join('`%s`'%x for x in sorted(set(re.findall(r'\[(C\d+-[A-Za-z0-9_.-]+)\]',m.group(5))))[:4])))
out=["### 7.5 Which checks catch which seeded changes\n",
"Independent sub-agents were given only the text of one property and a scratch worktree (nothing from /verif) and asked for two realistic changes each that break the property, compile, pass the existing tests and need something specific to manifest, with a demonstration. Each was confirmed by `seedcheck.sh` in a fresh scratch worktree (demonstration passes on the unchanged tree, fails with the patch; the existing tests named in meta.json pass with the patch), then the quick check of that property was run against the patched worktree (`VERIF_REPO=<worktree> ./check <ID> quick`). Kept changes are in `/verif/seeded/<ID>-m<k>/` (patch.diff, demo_test.go, meta.json with what was run). The table shows the result with the machinery as committed; where a change was first missed, the strengthening is described in §7.6.\n",
"| seeded change | what it does | needs to manifest | quick check result | classes that fired |","|---|---|---|---|---|"]+rows
out+=["","Patches written by the lead or by harness builders to validate monitors (`selfmut/`, applied with `mutcheck.sh`; builders' own mutation tables are in their harness reports summarised in §7.7):\n","| patch | property | result | classes |","|---|---|---|---|"]+sm+[""]
p=os.path.join(V,'DESIGN.md'); s=open(p).read()
if "<!-- SEEDED-BEGIN -->" not in s:
    marker="## 5. What this family cannot decide here (stated limits)"
    s=s.replace(marker,"<!-- SEEDED-BEGIN -->\n<!-- SEEDED-END -->\n\n"+marker)
a=s.index("<!-- SEEDED-BEGIN -->")+len("<!-- SEEDED-BEGIN -->\n"); b=s.index("<!-- SEEDED-END -->")
s=s[:a]+"\n".join(out)+"\n"+s[b:]
open(p,'w').write(s)
print(len(rows),'seeded rows',len(sm),'selfmut rows')
