#!/bin/bash
# usage: mutcheck.sh <patch.diff> <ID> [tier]   applies the patch to a scratch worktree of /repo HEAD and runs the check against it
set -u
patch=$(realpath "$1"); id="$2"; tier="${3:-quick}"
wt=/tmp/wt-mut-$$-$RANDOM
git -C /repo worktree add -q --detach "$wt" HEAD || exit 3
if ! git -C "$wt" apply "$patch"; then echo "PATCH-FAILED $patch"; git -C /repo worktree remove --force "$wt"; exit 3; fi
VERIF_REPO="$wt" VERIF_OUTTAG="mut$$" ./check "$id" "$tier" > "out/mut-$id-$(basename $patch .diff).log" 2>&1
rc=$?
git -C /repo worktree remove --force "$wt"
rm -rf "out/$id/$tier-mut$$"
echo "$(date +%H:%M:%S) $id ${patch#/verif/} rc=$rc $(grep -c '^VIOLATION' out/mut-$id-$(basename $patch .diff).log) violations; classes: $(grep -o '^  \[[^]]*\]' out/mut-$id-$(basename $patch .diff).log | sort | uniq -c | tr '\n' ' ' | cut -c1-300)" | tee -a out/mutcheck.log >> selfmut/results.log
exit $rc
