#!/usr/bin/env python3
"""seed_prompt.py <ID> <round> -> prints the prompt handed to an independent sub-agent that writes breaking changes.
The prompt contains only the property text, the agent's own scratch worktree and one-line summaries of changes written in
earlier rounds (so it does not repeat them) - nothing about /verif's monitors."""
import json, sys, os, glob
V = os.path.dirname(os.path.abspath(__file__))
pid, rnd = sys.argv[1], sys.argv[2]
prop = [json.loads(l) for l in open(os.path.join(V, "properties.jsonl")) if json.loads(l)["id"] == pid][0]
prev = []
for d in sorted(glob.glob(os.path.join(V, "seeded", pid + "-*"))):
    try:
        m = json.load(open(os.path.join(d, "meta.json")))
        prev.append("- " + m.get("summary", "")[:330].replace("\n", " "))
    except Exception:
        pass
wt = "/tmp/seedwt%s-%s" % (rnd, pid)
out = "/tmp/mutout%s/%s" % (rnd, pid)
print(f"""You are helping to evaluate a verification effort for OpenBao (a community fork of HashiCorp Vault, Go). Your job is to play the role of a developer who introduces a subtle, realistic regression. Work ONLY inside your own scratch git worktree; create it first:

    git -C /repo worktree add --detach {wt} HEAD

Never edit, build in, or commit to /repo itself, and do not look at or use anything under /verif. Every shell call needs
`export GOFLAGS=-mod=mod GOPROXY=off GOSUMDB=off GOTOOLCHAIN=local` and the Go binary is `go1.27.0` (plain `go` is too old). There is no network. The sdk is a separate Go module at {wt}/sdk (run its tests from inside that directory). Be frugal with CPU (others share this 16-core machine): run only targeted tests (`go1.27.0 test -vet=off -count=1 -run <regex> ./internal/<pkg>/`), never the whole suite; the first build of ./internal/vault takes about 3 minutes.

## The property (this is all you are given)

**{prop['id']} - {prop['title']}**

{prop['statement']}

Quantified over: {prop['quantifier']['text']}

Code anchors: {json.dumps(prop.get('anchors'))[:1500]}

## What to produce

TWO different, independent changes to the OpenBao source (non-test .go files) each of which makes the property FALSE, while
 * the tree still compiles,
 * the existing tests of the packages you touch (and obvious dependants) still pass - run the relevant ones to confirm and say which you ran,
 * the change looks like something a developer could plausibly commit (a refactor, an optimisation, a 'simplification', a misplaced fix, a changed lock scope, a swallowed error, a reordered pair of writes, a wrong-key lookup ...) - not sabotage with an obvious marker, no dead code, no special-casing a magic input,
 * it needs something SPECIFIC to manifest: a particular interleaving of two requests, a crash or storage fault at a particular point, a multi-step sequence of operations, an unusual input or configuration, or two cooperating sites that each look fine alone. Ordinary single-step happy-path use must NOT expose it at once.
The two changes should attack different clauses / different code regions of the property. Prefer clauses and code regions different from these changes that were already written in earlier rounds (do not repeat them):
{chr(10).join(prev) if prev else '- (none yet)'}

For each change k in {{1,2}} write into {out}/m<k>/ (create the directory):
 * `patch.diff` - `git diff` of the change against HEAD (apply-able with `git apply` in a clean worktree of the same commit; source changes only, NOT including the demonstration test),
 * `demo_test.go` - a Go test file (ordinary `_test.go` contents, no build tag) that is dropped into ONE package directory of the tree, whose test(s) named `TestSeedDemo...` PASS on the unchanged tree and FAIL with the patch applied. Its first lines must contain a comment `// package dir: <path relative to repo root, e.g. internal/vault or sdk/helper/shamir>`. It must be deterministic (force interleavings with wrappers/hooks/channels available to tests, inject faults with a wrapping storage backend, etc.), finish in under 2 minutes, and must not depend on wall-clock races,
 * `meta.json` - {{"property": "{pid}", "summary": "<what the change does, where>", "needs_to_manifest": "<the specific condition>", "clause_broken": "<which part of the property text becomes false>", "existing_tests_run": "<commands you ran and their result>", "demo": "<how the demo shows it>"}}.

Verify yourself, in your worktree: demo passes without the patch, fails with it; touched packages' existing tests pass with it. Do one change at a time (reset the worktree between them with `git -C {wt} checkout -- . && git -C {wt} clean -fdq`).

When both are written, REMOVE your worktree and its build output: `git -C /repo worktree remove --force {wt}`. Your final message: for each change 3-5 lines (what, where, what it needs, what you ran).""")
