#!/usr/bin/env python3
"""Rewrites the findings tables of DESIGN.md §7.1/§7.2 from known_findings.json."""
import json, re, os
V=os.path.dirname(os.path.abspath(__file__))
k=json.load(open(os.path.join(V,'known_findings.json')))['findings']
def esc(x): return x.replace('|','\\|').replace('\n',' ')
out=["### 7.1 Genuine defects repaired (`fix:` commits in /repo; hooks off, the pinned suite passes)\n",
"Each row is one unguarded `fix:` commit. The witness is what the monitor reported on the tree before the commit; the class is the violation class the harness assigns to exactly that signature (recorded as `fixed`, which suppresses nothing: the check reports it again if the defect returns).\n",
"| id | property | class | commit | failing input / schedule / history |","|---|---|---|---|---|"]
for f in k:
    if f['status']=='fixed':
        w=re.sub(r'^fixed: property=\S+ \S+ ','',f['what'])
        out.append("| %s | %s | `%s` | %s | %s |"%(f['id'],f['property'],f['class'],f.get('commit',''),esc(w)))
out+=["","### 7.2 Genuine defects kept as open known findings\n",
"Not repaired because the repair is not small and safe (reason in the text or in §7.4). Each prints one `KNOWN-FINDING:` line when reproduced; any violation with another class is a VIOLATION.\n",
"| id | property | class (signature is spelled out in the harness next to where the class is assigned) | what fails |","|---|---|---|---|"]
for f in k:
    if f['status']=='open':
        out.append("| %s | %s | `%s` | %s |"%(f['id'],f['property'],f['class'],esc(f['what'])))
out.append("")
p=os.path.join(V,'DESIGN.md'); s=open(p).read()
a=s.index("<!-- FINDINGS-TABLES-BEGIN"); a=s.index("\n",a)+1
b=s.index("<!-- FINDINGS-TABLES-END -->")
s=s[:a]+"\n".join(out)+"\n"+s[b:]
open(p,'w').write(s)
print(sum(f['status']=='fixed' for f in k),'fixed',sum(f['status']=='open' for f in k),'open')
