#!/bin/bash
# usage: seedcheck.sh <ID> <k> <pkgdir> <demo-run-regex> <existing-tests-regex|ALL|NONE> [check-ID ...]
# Confirms an independently written breaking change (/tmp/mutout/<ID>/m<k>) and runs our checks against it.
set -u
export GOFLAGS=-mod=mod GOPROXY=off GOSUMDB=off GOTOOLCHAIN=local
id="$1"; k="$2"; pkgdir="$3"; demore="$4"; exre="$5"; shift 5
checks="${*:-$id}"
round="${ROUND:-1}"
if [ "$round" = 1 ]; then src=/tmp/mutout/$id/m$k; name=$id-m$k; else src=/tmp/mutout$round/$id/m$k; name=$id-r${round}m$k; fi
wt=/tmp/sc-$name
log=/verif/out/seedcheck-$name.log
: > $log
git -C /repo worktree add -q --detach $wt HEAD || exit 3
if [[ "$pkgdir" == sdk/* ]]; then mod=$wt/sdk; pkg=./${pkgdir#sdk/}; else mod=$wt; pkg=./$pkgdir; fi
cp $src/demo_test.go $wt/$pkgdir/zz_seed_demo_test.go
(cd $mod && go1.27.0 test -vet=off -count=1 -run "$demore" $pkg) >> $log 2>&1; demo_clean=$?
if ! git -C $wt apply $src/patch.diff >> $log 2>&1; then echo "$name PATCH-FAILED" | tee -a /verif/out/seedcheck.log; git -C /repo worktree remove --force $wt; exit 3; fi
(cd $mod && go1.27.0 test -vet=off -count=1 -run "$demore" $pkg) >> $log 2>&1; demo_mut=$?
rm -f $wt/$pkgdir/zz_seed_demo_test.go
ex=skipped
if [ "$exre" != NONE ]; then
  if [ "$exre" = ALL ]; then (cd $mod && go1.27.0 test -vet=off -count=1 -timeout 25m $pkg) > $log.existing 2>&1; ex=$?
  else (cd $mod && go1.27.0 test -vet=off -count=1 -timeout 25m -run "$exre" $pkg) > $log.existing 2>&1; ex=$?; fi
  grep -E "^(--- FAIL|FAIL|ok)" $log.existing | head -5 >> $log
fi
res=""
for c in $checks; do
  (cd /verif && VERIF_REPO=$wt VERIF_OUTTAG=seed$name ./check $c quick) > $log.check-$c 2>&1; rc=$?
  cls=$(grep -o '^  \[[^]]*\]' $log.check-$c | sort | uniq -c | tr '\n' ' ' | cut -c1-400)
  res="$res $c:rc=$rc[$cls]"
  rm -rf /verif/out/$c/quick-seed$name
done
git -C /repo worktree remove --force $wt
mkdir -p /verif/seeded/$name
cp $src/patch.diff $src/demo_test.go /verif/seeded/$name/
python3 - "$src/meta.json" "/verif/seeded/$name/meta.json" "$demo_clean" "$demo_mut" "$ex" "$res" "$pkgdir" "$demore" "$exre" <<'PY'
import json,sys
m=json.load(open(sys.argv[1]))
m["confirmed_by_lead"]={"demo_on_unchanged_tree_rc":int(sys.argv[3]),"demo_with_patch_rc":int(sys.argv[4]),"existing_tests_with_patch_rc":sys.argv[5],
 "existing_tests_regex":sys.argv[9],"demo_package":sys.argv[7],"demo_run":sys.argv[8],"checks_against_patch":sys.argv[6].strip(),
 "base_commit":__import__("subprocess").check_output(["git","-C","/repo","rev-parse","--short","HEAD"]).decode().strip()}
json.dump(m,open(sys.argv[2],"w"),indent=1)
PY
echo "$(date +%H:%M:%S) $name demo_clean=$demo_clean demo_mut=$demo_mut existing=$ex checks:$res" | tee -a /verif/out/seedcheck.log
