#!/usr/bin/env python3
"""Polls /tmp/mutout<ROUND>/<ID>/m<k> for finished deliverables and runs seedcheck.sh on each (sequentially)."""
import os,re,sys,time,subprocess,json,glob
ROUND=sys.argv[1] if len(sys.argv)>1 else '2'
src='/tmp/mutout'+('' if ROUND=='1' else ROUND)
ids=['C%02d'%i for i in range(1,21)]
def info(d):
    t=open(os.path.join(d,'demo_test.go'),errors='replace').read()
    head='\n'.join(t.split('\n')[:40])
    m=re.search(r'((?:internal|sdk)/[A-Za-z0-9_/.\-]+)',head)
    if not m: return None
    p=m.group(1).rstrip('/.')
    if p.endswith('.go'): p=os.path.dirname(p)
    fn=re.search(r'^func (Test[A-Za-z0-9]+?)(?:_|\()',t,re.M)
    if not fn: return None
    return p,fn.group(1)
idle=0
while idle<400:
    did=False
    for i in ids:
        for k in ('1','2'):
            d=os.path.join(src,i,'m'+k)
            name='%s-m%s'%(i,k) if ROUND=='1' else '%s-r%sm%s'%(i,ROUND,k)
            if not all(os.path.exists(os.path.join(d,f)) for f in ('patch.diff','demo_test.go','meta.json')): continue
            if os.path.exists('/verif/seeded/%s/meta.json'%name) or os.path.exists('/verif/out/autoseed-%s.skip'%name): continue
            # let the agent finish writing
            if time.time()-os.path.getmtime(os.path.join(d,'meta.json'))<60: continue
            inf=info(d)
            if not inf:
                open('/verif/out/autoseed-%s.skip'%name,'w').write('cannot parse demo header'); continue
            pkg,fn=inf
            env=dict(os.environ,ROUND=ROUND)
            subprocess.run(['./seedcheck.sh',i,k,pkg,fn,'NONE'],cwd='/verif',env=env,stdout=subprocess.DEVNULL,stderr=subprocess.DEVNULL)
            if not os.path.exists('/verif/seeded/%s/meta.json'%name):
                open('/verif/out/autoseed-%s.skip'%name,'w').write('seedcheck failed')
            did=True
    if did: idle=0
    else:
        idle+=1; time.sleep(30)
