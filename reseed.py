#!/usr/bin/env python3
"""reseed.py [-j N] <seedname>[:<checkID>[,<checkID>]] ...   (no args after -j: every seeded/* directory)
Re-runs the quick check(s) against each stored seeded change (scratch worktree of /repo HEAD + patch.diff) with the
machinery as it is now and records the outcome in seeded/<name>/meta.json under "checks_now"."""
import json, os, re, subprocess, sys, glob, time
from concurrent.futures import ThreadPoolExecutor
V = os.path.dirname(os.path.abspath(__file__))
args = sys.argv[1:]
par = 3
if args and args[0] == "-j":
    par = int(args[1]); args = args[2:]
if not args:
    args = [os.path.basename(d) for d in sorted(glob.glob(os.path.join(V, "seeded", "*")))]
head = subprocess.check_output(["git", "-C", "/repo", "rev-parse", "--short", "HEAD"]).decode().strip()
vhead = subprocess.check_output(["git", "-C", V, "rev-parse", "--short", "HEAD"]).decode().strip()

def one(arg):
    name, _, cs = arg.partition(":")
    d = os.path.join(V, "seeded", name)
    checks = cs.split(",") if cs else [name.split("-")[0]]
    wt = "/tmp/rs-%s-%d" % (name, os.getpid())
    subprocess.run(["git", "-C", "/repo", "worktree", "add", "-q", "--detach", wt, "HEAD"], check=True)
    res = {}
    try:
        r = subprocess.run(["git", "-C", wt, "apply", os.path.join(d, "patch.diff")], capture_output=True, text=True)
        if r.returncode != 0:
            r = subprocess.run(["git", "-C", wt, "apply", "-3", os.path.join(d, "patch.diff")], capture_output=True, text=True)
        if r.returncode != 0:
            res = {"error": "patch does not apply on %s: %s" % (head, r.stderr[-300:])}
        else:
            for c in checks:
                tag = "rs" + name
                env = dict(os.environ, VERIF_REPO=wt, VERIF_OUTTAG=tag)
                p = subprocess.run(["./check", c, "quick"], cwd=V, env=env, capture_output=True, text=True)
                out = p.stdout + p.stderr
                open(os.path.join(V, "out", "reseed-%s-%s.log" % (name, c)), "w").write(out)
                classes = {}
                for m in re.findall(r"^  \[([^\]]+)\]", out, re.M):
                    classes[m] = classes.get(m, 0) + 1
                res[c] = {"rc": p.returncode, "classes": classes}
                subprocess.run(["rm", "-rf", os.path.join(V, "out", c, "quick-" + tag)])
    finally:
        subprocess.run(["git", "-C", "/repo", "worktree", "remove", "--force", wt])
    mp = os.path.join(d, "meta.json")
    m = json.load(open(mp))
    m["checks_now"] = {"repo_head": head, "verif_head": vhead, "results": res}
    json.dump(m, open(mp, "w"), indent=1)
    line = "%s %s %s" % (time.strftime("%H:%M:%S"), name, json.dumps(res))
    open(os.path.join(V, "out", "reseed.log"), "a").write(line + "\n")
    print(line, flush=True)

os.makedirs(os.path.join(V, "out"), exist_ok=True)
with ThreadPoolExecutor(par) as ex:
    list(ex.map(one, args))
