#!/usr/bin/env python3
"""Regenerates MANIFEST.json from the table below (claimed properties) and properties.jsonl."""
import json, os, subprocess

V = os.path.dirname(os.path.abspath(__file__))
props = [json.loads(l) for l in open(os.path.join(V, "properties.jsonl"))]

ASSUME_COMMON = "in-package harness injected with go test -overlay (build tag verif); executions are those the seeded workload produced; held-on-what-was-observed, not a proof"

# id -> (category, level text, level note, technique, design ref)
CLAIMS = {
 "C04": ("fault_enumeration",
  "Token-tree reference model compared with the running core (liveness of every token, cubbyhole keys in the physical store, raw lease records) over seeded histories; every single storage-operation failure inside each of 5 revocation flows followed by retries; a restarted core on every prefix of the durable writes of each flow; and create||revoke requests scheduled at storage-operation granularity (preemption-bounded enumeration + PCT); re-issue of a caller-chosen token id (and use of a batch child) while the earlier holder's queued revocation is interrupted at every storage operation of its request and queued parts. Fault and crash points are enumerated completely for the flows driven; schedules and histories are samples.",
  "single-fault model (one storage op of the tagged request fails once); crash = prefix of the physical write sequence; schedules = orderings of storage ops under sys/token and sys/expire; " + ASSUME_COMMON,
  "runtime monitor: reference-model oracle over histories + single-fault/crash-prefix enumeration + gated storage-operation scheduler", "DESIGN.md §4 C04"),
 "C11": ("fault_enumeration",
  "Order oracle over (audit device outcome, backend handler entry, client receipt) events from one sequence counter, for every assignment of ok/err/panic to (device, phase) with k<=3 devices (k=4 sampled) x 14 request kinds on a real core; canary search with independently recomputed HMACs over entries emitted by the real formatter for generated payload shapes; whole-file scan of the built-in file device. String leaves come in 23 shape classes (digit-only PIN / OTP / epoch, near- and exact RFC 3339, keywords, numbers, JSON-looking, base64 / hex / UUID, empty, whitespace, very long, unicode, field names, hmac look-alikes); the real file and socket devices run on a core with their targets failing the way an operating system fails them (/dev/full, replaced or bad descriptors, removed directory, dead or vanished peer) and the order clause is decided on what an enabled device actually holds (entries read back and matched by request id), never on a device's return value.",
  "device failures are scripted (programmable devices); non-HMAC exemption read as 'some map key on the path is listed'; " + ASSUME_COMMON,
  "runtime monitor: event-order oracle under enumerated audit-device fault patterns + plaintext-canary search of formatted entries", "DESIGN.md §4 C11"),
 "C18": ("exploration",
  "Exactly-once counter over which requests obtained the canary-marked payload (over the wrapping token and its rewrapped successors), residue scan of the physical store (token record, accessor, lease, cubbyhole), creation-path, misuse, wrong-token and TTL-expiry checks; a grants matrix (requester with token / entity / group policies or root x wrapped secret, list, login x 0-2 rewraps x 14 probes: refused, no handler, no storage change); over sequential histories and over k<=4 concurrent unwrap/rewrap/lookup/revoke/cubbyhole-read requests scheduled at storage-operation granularity.",
  "payload identified by a unique canary; schedules = orderings of storage ops under sys/token, sys/expire, logical/; TTL expiry asserted only after the harness saw the clock pass it; " + ASSUME_COMMON,
  "runtime monitor: exactly-once counter + storage residue scan under a gated storage-operation scheduler", "DESIGN.md §4 C18"),
 "C19": ("exploration",
  "At-most-n / exactly-n counter of accounted uses (the request's own tagged write of the token's id record), handler-after-use ordering, monotone stored count, post-exhaustion token refusal and lease state (the final use must have queued the revocation, decided from storage), child-creation refusal, no use given back when the token's parent is orphan-revoked concurrently; for n in 1..4 over sequential histories and m>n concurrent mixed requests scheduled at storage-operation granularity.",
  "a use is observed as the tagged put of the token's id record by UseToken; schedules = orderings of storage ops on sys/token/id and sys/expire; " + ASSUME_COMMON,
  "runtime monitor: use-accounting counter over the probe log under a gated storage-operation scheduler", "DESIGN.md §4 C19"),
 "C20": ("exploration",
  "Runtime oracles on the real Split/Combine and the package-private field and polynomial code: exhaustive field laws (65536 pairs, 2^24 triples) against an independent reference, exhaustive 1-byte secrets for n<=5 with all subsets, bijection (independence) check for t<=3 on polynomial.evaluate, degree/intercept check by reference interpolation, sub-threshold non-reconstruction for long secrets, rejection cases, exact output distribution of the real coefficient sampler over the tree of scripted crypto/rand streams (every coefficient tuple has probability exactly 256^-(t-1) for t<=3), loose statistical monitor on Split; threshold accounting of Core.Unseal, root-token generation and rekey incl. rekey verification (progress = distinct shares, completes exactly at t genuine distinct shares, a failed attempt starts over, the new key takes effect only after verification).",
  "crypto/rand assumed uniform; independence for t>3 not observable at run time; " + ASSUME_COMMON,
  "runtime oracle: exhaustive/seeded differential test against an independent GF(2^8) reference + bijection monitor", "DESIGN.md §4 C20"),
}

# properties whose monitor is still being built in this session
PENDING_REASON = "monitor under construction in this session (designed in DESIGN.md §4); not claimed until it runs clean on the unchanged tree and catches seeded breaks"

EXTRA = os.path.join(V, "manifest_claims.json")
if os.path.exists(EXTRA):
    for k, v in json.load(open(EXTRA)).items():
        CLAIMS[k] = tuple(v)

# sentences describing monitors added in later rounds, appended to the level text
ADD = os.path.join(V, "manifest_claims_add.json")
CLAIM_ADD = json.load(open(ADD)) if os.path.exists(ADD) else {}

checks = []
for p in props:
    i = p["id"]
    if i not in CLAIMS:
        continue
    cat, text, note, tech, ref = CLAIMS[i]
    if i in CLAIM_ADD:
        text = text.rstrip() + " Added in later rounds: " + CLAIM_ADD[i]
    plan = json.load(open(os.path.join(V, "harness", i, "plan.json")))
    assert plan["level"] == cat, (i, plan["level"], cat)
    checks.append({
        "property_id": i,
        "quick_cmd": "./check %s quick" % i,
        "thorough_cmd": "./check %s thorough" % i,
        "evidence_file": "/verif/evidence/%s.json" % i,
        "replay_cmd_template": "./check %s quick --replay {path}" % i,
        "engine": "verif-runtime-monitor",
        "level_claimed": {"category": cat, "text": text, "design_ref": ref},
        "level_note": note,
        "technique": tech,
    })

hooks_commits = []
man = {
    "version": 1,
    "setup_cmd": "./setup.sh",
    "hooks": {
        "guard": "verif",
        "enable": "go1.27.0 test -c -tags verif -overlay <generated by ./check> (kit and harness files carry //go:build verif and are injected with -overlay; no file with the tag lives in /repo)",
        "baseline_off_cmd": "./baseline_off.sh",
        "source_commits": hooks_commits,
        "add_only": True,
    },
    "engines": [{
        "name": "verif-runtime-monitor", "path": "/verif/check",
        "serves_properties": sorted(CLAIMS),
        "kind_free_text": "python driver + Go kit (probe physical backend: op log, goroutine tagging, single-fault injection, write journal / crash-prefix materialisation, storage-operation gate scheduler with preemption-bounded explorer and PCT; porcupine for linearizability) overlaid into the repository's own test binaries; race detector builds in the thorough tier",
    }],
    "checks": checks,
    "notes": "Genuine defects found by the monitors were repaired in /repo as separate 'fix:' commits and are listed in known_findings.json (fixed entries suppress nothing); open findings are listed there too and print KNOWN-FINDING lines.",
    "not_applicable": [{"property_id": p["id"], "reason": PENDING_REASON} for p in props if p["id"] not in CLAIMS],  # empty when every property is claimed
}
json.dump(man, open(os.path.join(V, "MANIFEST.json"), "w"), indent=1)
print("claimed:", sorted(CLAIMS), "pending:", [p["id"] for p in props if p["id"] not in CLAIMS])
