#!/bin/bash
# usage: sweep.sh "C04 C18" "1 2 3 4 5" [tier]  -> out/sweep.log
ids="$1"; seeds="$2"; tier="${3:-quick}"
for id in $ids; do for s in $seeds; do
  out=$(VERIF_SEED=$s ./check $id $tier 2>&1 | tail -1)
  echo "$(date +%H:%M:%S) seed=$s $out" >> out/sweep.log
done; done
for id in $ids; do ./check $id $tier >/dev/null 2>&1; done
echo "$(date +%H:%M:%S) sweep done: $ids" >> out/sweep.log
