#!/bin/bash
# Runs the repository's pinned test suite with the verif guard OFF (no -tags verif, no overlay).
# Same shape as /root/.vp/BASELINE.json's cmd.
export GOFLAGS=-mod=mod GOPROXY=off GOSUMDB=off GOTOOLCHAIN=local
rc=0
for m in . ./api ./api/auth/approle ./api/auth/jwt ./api/auth/kubernetes ./api/auth/ldap ./api/auth/userpass ./internal/helper/stubbolt ./sdk; do
  (cd /repo/$m && go1.27.0 test -json -vet=off -count=1 -timeout 25m ./...) || rc=1
done
exit $rc
